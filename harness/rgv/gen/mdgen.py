"""Seeded generator of recipe_grid Markdown documents for C13 (and brace bodies for C03's prose clause).

A document is a sequence of block constructs (headings, paragraphs, lists, quotes, raw HTML,
thematic breaks, link reference definitions, other fenced code, recipe blocks: indented /
```recipe / ```new-recipe / ~~~ fences) with brace expressions in every inline position:

  prose positions (marko parses a ScaledValueExpression there):
      plain text, emphasis, strong, link text, reference link text, heading text, list item, quote
  literal positions (the braces are ordinary characters there):
      code span, link destination, link title, image title, inline HTML, autolink, raw HTML block,
      other fenced code, link reference definition

Every generated brace occurrence is recorded with what the generator KNOWS about it (its parts:
texts and numbers, and whether it stands in a prose position), and every heading with what the
generator knows about it (level, plain or not, serving phrase).  That knowledge feeds the oracle of
props/C13.py, which is therefore independent both of recipe_grid's parser/renderer mixin and of
the Coq model.

`gen_doc(rng, ...)` -> GenDoc;  `gen_brace_body(rng)` -> (body, parts | None);
`IMAGE_ALT_DOCS` = the tiny separate stream for the known crash (brace in image alt text).
"""
from __future__ import annotations

import random
from dataclasses import dataclass, field
from fractions import Fraction
from typing import Any, Dict, List, Optional, Tuple

SENT_A, SENT_B = "QZX", "ZQ"          # prose brace i is written QZX<letters>ZQ in the oracle's text


def sentinel(i: int) -> str:
    """Alphabetic (no digits: a digit could be read as part of a serving count)."""
    letters = ""
    n = i
    while True:
        letters += "abcdefghij"[n % 10]
        n //= 10
        if n == 0:
            break
    return SENT_A + letters + SENT_B


@dataclass
class BraceOcc:
    body: str
    parts: Optional[List[Any]]        # str | int | Fraction | float in order; None = structure not asserted
    prose: bool
    where: str
    alt: bool = False                 # inside image alt text: rendered as plain text, not scaled


@dataclass
class HeadingInfo:
    level: int
    kind: str                         # "scalable" | "unscalable" | "markup" | "percent" | "brace"
    title: str = ""                   # rendered title text before the phrase (scalable) / whole text
    space: str = ""
    prep: str = ""                    # preposition incl. trailing blanks, as written
    count: int = 0


@dataclass
class GenDoc:
    text: str = ""
    plain: str = ""                   # same text with prose braces replaced by sentinels
    braces: List[BraceOcc] = field(default_factory=list)
    headings: List[HeadingInfo] = field(default_factory=list)
    tags: List[str] = field(default_factory=list)
    comparable: bool = True           # may the oracle compare with plain CommonMark?


# --------------------------------------------------------------------------- brace bodies

WORDS = ["large", "about", "or", "cups", "kg", "to", "x", "portions", "cm wide", "crème", "dozen", "g"]
SAFE_PUNCT = [" ", " ", " ", "-", ", ", ": ", "."]


def _num_token(rng: random.Random) -> Tuple[str, Any]:
    k = rng.randrange(12)
    if k <= 3:
        n = rng.choice([0, 1, 2, 3, 4, 7, 10, 12, 25, 100, 250, 1000, 123456])
        return str(n), n
    if k == 4:
        n = rng.randrange(0, 50)
        return "0" * rng.randrange(1, 3) + str(n), n
    if k <= 6:
        d = rng.choice([2, 3, 4, 5, 8, 10, 16, 7])
        n = rng.randrange(0, 3 * d)
        sp1, sp2 = rng.choice(["", "", " ", "\t"]), rng.choice(["", "", " "])
        dtxt = rng.choice(["", "", "0"]) + str(d)
        return f"{n}{sp1}/{sp2}{dtxt}", Fraction(n, d)
    if k <= 8:
        i = rng.randrange(0, 20)
        d = rng.choice([2, 3, 4, 8])
        n = rng.randrange(1, d)
        return f"{i}{rng.choice([' ', '  ', chr(9)])}{n}/{d}", i + Fraction(n, d)
    if k == 9:
        i, f = rng.randrange(0, 30), rng.choice(["5", "25", "0", "125", "3", "75", "10", "333"])
        return f"{i}.{f}", float(f"{i}.{f}")
    if k == 10:
        i = rng.randrange(0, 30)
        return f"{i}.", float(i)
    big = rng.choice([2 ** 53 + 1, 10 ** 17 + 7, 10 ** 22, 99999999999999999999])
    return str(big), int(float(str(big)))


def gen_brace_body(rng: random.Random, simple: bool = True) -> Tuple[str, Optional[List[Any]]]:
    """A brace body built from tokens whose meaning the generator knows.  [simple]: only characters
    that mean nothing to Markdown or HTML (so the plain-CommonMark oracle applies)."""
    toks: List[Tuple[str, Any]] = []
    n = rng.choice([1, 1, 1, 2, 2, 3, 4])
    last_num = False
    for _ in range(n):
        if rng.random() < 0.55 and not last_num:
            toks.append(_num_token(rng))
            last_num = True
        else:
            w = rng.choice(WORDS)
            if last_num:
                # a letter / blank between two numbers, and never "/" or "." or a digit right after a number
                w = rng.choice([" ", " "]) + w
            toks.append((w + rng.choice(["", " "]), None))
            last_num = False
    if not simple:
        extra = rng.choice(["\\}", "\\{", "\\\\", "&", "<b>", "\"", "'", "*", "_", "\\x", "½", "٣", "%", "\\"])
        pos = rng.randrange(len(toks) + 1)
        if extra == "\\" and pos < len(toks):
            pos = len(toks)           # a lone backslash only at the very end (then the "}" escapes... see below)
        toks.insert(pos, (extra, "raw"))
    body = "".join(t for t, _ in toks)
    # a number token directly followed by a word starting with a digit cannot happen (words are alphabetic)
    if not simple:
        return body, None
    parts: List[Any] = []
    for t, v in toks:
        if v is None:
            if parts and isinstance(parts[-1], str):
                parts[-1] += t
            else:
                parts.append(t)
        else:
            parts.append(v)
    # blanks between an integer-valued token and a following fraction are one mixed number: avoid by construction
    return body, [p for p in parts if p != ""]


def _fix_mixed(body_parts: Tuple[str, Optional[List[Any]]]) -> bool:
    """Reject bodies where two adjacent number tokens would read as one mixed number."""
    body, parts = body_parts
    if parts is None:
        return True
    for a, b in zip(parts, parts[1:]):
        if not isinstance(a, str) and not isinstance(b, str):
            return False
    return True


def brace_body(rng: random.Random, simple: bool = True) -> Tuple[str, Optional[List[Any]]]:
    while True:
        bp = gen_brace_body(rng, simple)
        if _fix_mixed(bp):
            return bp


# --------------------------------------------------------------------------- inline content

PROSE = ["Spam and eggs", "a little prose", "mix well; serve hot", "people or more", "notes on the method",
         "it is fine", "Crème fraîche & co", "1986 was a good year", "some text: with colon", "x = 1 a",
         "less < more > less", "say \"hello\"", "it's", "AT&T &amp; co &copy;", "tab\there", "UPPER CASE WORDS",
         "100% rye", "%ABCDEFGHIJKLMNOPQRSTUVWXYZABCDEFG%", "50 % off %", "back\\slash", "a\\*b"]


class Ctx:
    def __init__(self, rng: random.Random, doc: GenDoc, allow_multiline: bool = False) -> None:
        self.rng = rng
        self.doc = doc
        self.allow_multiline = allow_multiline

    # -- brace occurrences ---------------------------------------------------------------------
    def brace(self, prose: bool, where: str, nospace: bool = False, alt: bool = False) -> Tuple[str, str]:
        rng = self.rng
        simple = rng.random() < 0.92 or not prose
        for _ in range(50):
            body, parts = brace_body(rng, simple)
            if nospace and (" " in body or "\t" in body):
                continue
            break
        else:
            body, parts = "2", [2]
        if prose and not simple:
            self.doc.comparable = False
            self.doc.tags.append("brace-special-chars")
        if prose and self.allow_multiline and rng.random() < 0.03 and " " in body:
            body = body.replace(" ", "\n", 1)
            parts = None
            self.doc.comparable = False
            self.doc.tags.append("brace-multiline")
        i = len(self.doc.braces)
        self.doc.braces.append(BraceOcc(body, parts, prose, where, alt))
        self.doc.tags.append("brace@" + where)
        real = "{" + body + "}"
        return real, (sentinel(i) if prose or alt else real)

    def words(self) -> Tuple[str, str]:
        w = self.rng.choice(PROSE)
        return w, w

    def prose_run(self, where: str, n: Optional[int] = None) -> Tuple[str, str]:
        """Words and braces separated by single blanks."""
        rng = self.rng
        n = n if n is not None else rng.choice([1, 2, 2, 3])
        parts = []
        for _ in range(n):
            parts.append(self.brace(True, where) if rng.random() < 0.45 else self.words())
        return " ".join(p[0] for p in parts), " ".join(p[1] for p in parts)

    def inline(self, depth: int = 0) -> Tuple[str, str]:
        """One inline construct (surrounded by blanks by the caller)."""
        rng = self.rng
        k = rng.randrange(19 if depth == 0 else 6)
        if k <= 2:
            return self.prose_run("text")
        if k == 3:
            a, b = self.prose_run("emphasis")
            d = rng.choice(["*", "_"])
            return f"{d}{a}{d}", f"{d}{b}{d}"
        if k == 4:
            a, b = self.prose_run("strong")
            return f"**{a}**", f"**{b}**"
        if k == 5:
            a, b = self.brace(True, "text")
            return a, b
        if k == 6:
            a, b = self.prose_run("link-text")
            d, d2 = self.brace(False, "link-dest", nospace=True)
            t, t2 = self.brace(False, "link-title")
            form = rng.randrange(3)
            if form == 0:
                return f"[{a}](http://x/{d})", f"[{b}](http://x/{d2})"
            if form == 1:
                return f'[{a}](/p/{d} "t {t}")', f'[{b}](/p/{d2} "t {t2}")'
            return f"[{a}](<a b {d}>)", f"[{b}](<a b {d2}>)"
        if k == 7:
            c, c2 = self.brace(False, "code-span")
            return f"`x {c} y`", f"`x {c2} y`"
        if k == 8:
            h, h2 = self.brace(False, "inline-html")
            a, b = self.prose_run("inside-inline-html", 1)
            return f'<span title="{h}">{a}</span>', f'<span title="{h2}">{b}</span>'
        if k == 9:
            u, u2 = self.brace(False, "autolink", nospace=True)
            return f"<http://example.com/{u}>", f"<http://example.com/{u2}>"
        if k == 10:
            t, t2 = self.brace(False, "image-title")
            return f'![plain alt](pic.png "{t}")', f'![plain alt](pic.png "{t2}")'
        if k == 11:
            a, b = self.prose_run("ref-link-text", 2)
            self.want_ref = True
            return f"[{a}][ref]", f"[{b}][ref]"
        if k == 12:
            a, b = self.prose_run("nested-emphasis", 2)
            return f"*outer **{a}** end*", f"*outer **{b}** end*"
        if k == 13:
            return "hard  \nbreak", "hard  \nbreak"
        if k >= 17:
            # an opening brace BEFORE a code span / inline HTML tag / autolink / backslash escape whose closing brace
            # lies inside (or after) that construct: the tighter construct wins, the braces are ordinary characters
            self.doc.tags.append("brace-overlap")
            x = rng.choice(["{2 `x} y`", "{1/2 `code}` z", "{<b>} bold</b>", "{see <http://x/}> there", "{3 <span title=\"}\">t</span>",
                            "{2 \\} x}", "{a \\{ 4}", "{5 `}`", "{1 <i>}</i>", "{7 <http://example.com/a}b> c}"])
            return x, x
        if k == 16:
            a, b = self.brace(False, "image-alt", alt=True)
            form = rng.randrange(3)
            if form == 0:
                return f"![alt {a} text](pic.png)", f"![alt {b} text](pic.png)"
            if form == 1:
                return f"![*em {a}* x](pic.png \"t\")", f"![*em {b}* x](pic.png \"t\")"
            return f"![{a}](pic.png)", f"![{b}](pic.png)"
        if k == 14:
            return "&lt;tag&gt; &#123;2&#125; \\{3\\}", "&lt;tag&gt; &#123;2&#125; \\{3\\}"
        return self.words()

    want_ref = False

    def paragraph_text(self) -> Tuple[str, str]:
        rng = self.rng
        n = rng.choice([1, 2, 3, 4])
        items = [self.inline() for _ in range(n)]
        sep = [rng.choice([" ", " ", "\n"]) for _ in range(n - 1)] + [""]
        real = "".join(a + s for (a, _), s in zip(items, sep))
        plain = "".join(b + s for (_, b), s in zip(items, sep))
        return real, plain


# --------------------------------------------------------------------------- headings

PHRASES = ["for", "serves", "serve", "to serve", "to serves", "makes", "serving", "to make", "FOR", "Serves", "To  Serve"]
TITLES = ["Spam", "Spam and eggs", "Fish &amp; chips", "Pie for two people", "4 cheese pizza", "Crème brûlée",
          "Soup: a classic", "Bread > toast",
          # a literal "<" (rendered &lt;) or the entity itself is plain text, not markup
          "Beans < Peas", "Cakes < 5 mins", "Tea &lt; coffee", "a &#60; b", "1 < 2 > 0 & co"]


# Multi-line setext headings: a serving phrase counts only at the very end of the heading text; one at the end of an
# earlier line is part of the title and every line stays in the <h1>.
MULTILINE_HEADINGS = [
    (["Soup for 2", "hungry people"], HeadingInfo(1, "unscalable", "Soup for 2\nhungry people")),
    (["Soup serves 3", "and for 2", "more"], HeadingInfo(1, "unscalable", "Soup serves 3\nand for 2\nmore")),
    (["Stew to make 12", "portions, roughly"], HeadingInfo(1, "unscalable", "Stew to make 12\nportions, roughly")),
    (["Big soup", "serves 6"], HeadingInfo(1, "scalable", "Big soup", "\n", "serves ", 6)),
    (["Soup", "for 2 people", "for 4"], HeadingInfo(1, "scalable", "Soup\nfor 2 people", "\n", "for ", 4)),
    (["Soup for 2", "or for 4"], HeadingInfo(1, "scalable", "Soup for 2\nor", " ", "for ", 4)),
    (["Bread makes 2", "loaves", "serving 8"], HeadingInfo(1, "scalable", "Bread makes 2\nloaves", "\n", "serving ", 8)),
]


def gen_heading(c: Ctx, first: bool, force_h1: bool = False) -> Tuple[List[str], List[str]]:
    rng, doc = c.rng, c.doc
    level = rng.choice([1, 1, 1, 2, 3]) if first else rng.choice([1, 2, 2, 3, 6])
    if force_h1:
        level = 1
    k = rng.randrange(10)
    info = HeadingInfo(level, "unscalable")
    import html as _html
    if level == 1 and rng.random() < 0.12:
        lines, info = rng.choice(MULTILINE_HEADINGS)
        doc.headings.append(HeadingInfo(1, info.kind, info.title, info.space, info.prep, info.count))
        doc.tags.append("heading-setext-multiline-" + info.kind)
        under = "=" * rng.choice([3, 5, 9])
        return list(lines) + [under], list(lines) + [under]
    if k <= 3:
        title = rng.choice(TITLES)
        sp = rng.choice([" ", " ", "  ", "\t"])
        ph = rng.choice(PHRASES)
        sp2 = rng.choice([" ", " ", "  "])
        n = rng.choice([1, 2, 4, 6, 12, 100, 0, 7])
        real = plain = f"{title}{sp}{ph}{sp2}{n}"
        info = HeadingInfo(level, "scalable", title, sp, ph + sp2, n)
    elif k == 4:
        real = plain = rng.choice(TITLES)
        info = HeadingInfo(level, "unscalable", real)
        if rng.random() < 0.3:
            # an empty heading: its title is the empty string
            doc.headings.append(HeadingInfo(level, "unscalable", ""))
            doc.tags.append(f"heading-h{level}-empty")
            line = "#" * level + rng.choice(["", " ", "   ", " #", " ##  "])
            return [line], [line]
    elif k == 5:
        a, b = c.prose_run("heading", 2)
        real, plain = f"Stew {a} for 4", f"Stew {b} for 4"
        info = HeadingInfo(level, "brace" if "{" in a else "scalable-or-plain")
        if info.kind != "brace":
            info = HeadingInfo(level, "either")
    elif k == 6:
        real = plain = rng.choice(["*Fancy* stew for 3", "Stew `code` for 3", "Stew <b>bold</b> for 3",
                                   "[Stew](http://x) for 3"])
        info = HeadingInfo(level, "markup")
    elif k == 7:
        real = plain = rng.choice(["100% rye for 2", "Rye 50 % for 2", "%"])
        info = HeadingInfo(level, "percent")
    elif k == 8:
        real = plain = rng.choice(["Stew for two", "Stew for 4 people", "for 4", "Stew for4", "Stew  serves 4  ",
                                   "Stew for 4.", "Serves 4", "Stew for ٣"])
        info = HeadingInfo(level, "either")
    else:
        a, b = c.paragraph_text()
        real, plain = a.replace("\n", " "), b.replace("\n", " ")
        info = HeadingInfo(level, "either")
    setext = level <= 2 and rng.random() < 0.25 and not real.startswith(("#", "-", "=", ">", "    "))
    if setext:
        under = ("=" if level == 1 else "-") * rng.choice([3, 3, 8])
        if info.kind == "scalable" and rng.random() < 0.3:
            # multi-line setext heading: the serving phrase on its own line
            real = plain = f"{info.title}\n{rng.choice(['for', 'serves'])} {info.count}"
            info = HeadingInfo(level, "either")
            doc.tags.append("heading-multiline")
        doc.headings.append(info)
        doc.tags.append("heading-setext")
        return real.split("\n") + [under], plain.split("\n") + [under]
    closing = rng.choice(["", "", " #", " ##  "])
    doc.headings.append(info)
    doc.tags.append(f"heading-h{level}-{info.kind}")
    hashes = "#" * level
    return [f"{hashes} {real}{closing}"], [f"{hashes} {plain}{closing}"]


# --------------------------------------------------------------------------- recipes

INGREDIENTS = ["egg", "onion", "can tomatoes", "pack of {4} buns", "carrot", "crème", "lemon",
               # backslashes in names: unquoted they are kept, inside quotes "\\\\" is one backslash
               "back\\slash", "dir\\temp\\new folder", "'a\\\\b'", "\"x\\\\1y\"", "c\\\\dir", "egg\\g<0>"]
UNITS = ["", "", "", " can", " pack", " bunch", " can", "g", " tsp"]
STEPS = ["fry", "boil", "mix", "chop and fry", "bake for {10} min", "chop\\fry", "mix\\1"]
NAMES = ["sauce", "dough", "filling", "stock", "sau\\ce"]


class RecipeNS:
    """One namespace (a group of blocks): which names are defined and still unused."""

    def __init__(self) -> None:
        self.defined: List[str] = []
        self.used: List[str] = []

    def ingredient(self, rng: random.Random) -> str:
        q = rng.choice(["1", "2", "1/2", "1 1/2", "0.5", "3", "200", "", "1/3", "2.0", "0.25", "1/4"])
        ing = rng.choice(INGREDIENTS)
        if q == "":
            return ing
        return f"{q}{rng.choice(UNITS)} {ing}"

    def statement(self, rng: random.Random) -> str:
        avail = [n for n in self.defined if n not in self.used]
        k = rng.randrange(8)
        if k <= 1:
            return self.ingredient(rng)
        if k <= 3 and avail:
            n = rng.choice(avail)
            self.used.append(n)
            return f"{rng.choice(STEPS)}({n}, {self.ingredient(rng)})"
        if k <= 5:
            free = [n for n in NAMES if n not in self.defined]
            if free:
                n = rng.choice(free)
                self.defined.append(n)
                return f"{n} = {rng.choice(STEPS)}({self.ingredient(rng)}, {self.ingredient(rng)})"
        return f"{rng.choice(STEPS)}({self.ingredient(rng)})"

    def block(self, rng: random.Random) -> List[str]:
        n = rng.choice([1, 1, 1, 2, 2, 3])
        out: List[str] = []
        for i in range(n):
            out.append(self.statement(rng))
            if i + 1 < n and rng.random() < 0.2:
                out.append("")
        return out


OTHER_LANGS = ["python", "python", "", "Recipe", "recipes", "new-recipe2", "text recipe", "recipe-", "RECIPE", "c++", "python",
               "pseudo-recipe", "old-recipe", "recipe2", "xnew-recipe", "pseudo-recipe", "old-new-recipe", "recipe.new-recipe"]


def gen_code(c: Ctx, ns_box: List[RecipeNS], depth: int = 0, after_list: bool = False) -> Tuple[List[str], str]:
    """-> (lines, tag)."""
    rng = c.rng
    # an indented chunk right after a list would continue the last list item instead of being a code block
    k = rng.randrange(3, 10) if after_list else rng.randrange(10)
    if k <= 2:
        body = ns_box[0].block(rng)
        # a tab only at top level: inside a container it does not reach the code-block column
        ind = rng.choice(["    ", "    ", "     ", "\t"] if depth == 0 else ["    ", "     "])
        return [(ind + l) if l else "" for l in body], "block-indented"
    if k <= 4:
        body = ns_box[0].block(rng)
        if rng.random() < 0.04:
            body = rng.choice([[], ["   "], [""]])        # a stub: compiling it is a ParseError
            c.doc.tags.append("block-blank")
        fence = rng.choice(["```", "```", "~~~", "````"])
        info = rng.choice(["recipe", "recipe", " recipe", "recipe  ", "recipe extra words"])
        if fence[0] == "`" and "`" in info:
            info = "recipe"
        return [fence + info] + body + [fence], "block-recipe"
    if k <= 6:
        ns_box[0] = RecipeNS()
        body = ns_box[0].block(rng)
        fence = rng.choice(["```", "~~~"])
        return [fence + rng.choice(["new-recipe", "new-recipe", " new-recipe x"])] + body + [fence], "block-new-recipe"
    lang = rng.choice(OTHER_LANGS)
    b, _ = c.brace(False, "other-code")
    body = rng.choice([["x = 1", f"y = {b}"], [f"1 egg {b}"], ["fry(1 egg)"], []])
    fence = rng.choice(["```", "~~~"])
    return [fence + lang] + body + [fence], "block-other-code"


# --------------------------------------------------------------------------- blocks and containers

def gen_block(c: Ctx, ns_box: List[RecipeNS], depth: int, state: Dict[str, Any]) -> Tuple[List[str], List[str]]:
    """One block construct as (real lines, plain lines)."""
    rng, doc = c.rng, c.doc
    k = rng.randrange(20)
    after_list = bool(state.get("after_list"))
    state["after_list"] = False
    if k <= 4:
        a, b = c.paragraph_text()
        doc.tags.append("paragraph")
        return a.split("\n"), b.split("\n")
    if k <= 7:
        first = not state.get("heading")
        state["heading"] = True
        return gen_heading(c, first)
    if k <= 11:
        lines, tag = gen_code(c, ns_box, depth, after_list)
        doc.tags.append(tag)
        return lines, list(lines)
    if k == 12 and depth < 2:
        # block quote
        real: List[str] = []
        plain: List[str] = []
        for i in range(rng.choice([1, 2, 3])):
            a, b = gen_block(c, ns_box, depth + 1, state)
            if i:
                real.append("")
                plain.append("")
            real += a
            plain += b
        doc.tags.append("quote")
        pre = lambda l: (">" if l == "" else "> " + l)
        return [pre(l) for l in real], [pre(l) for l in plain]
    if k <= 14 and depth < 2:
        # list
        ordered = rng.random() < 0.4
        loose = rng.random() < 0.5
        real, plain = [], []
        start = rng.choice([1, 1, 3])
        for i in range(rng.choice([1, 2, 3])):
            marker = f"{start + i}. " if ordered else rng.choice(["- "])
            pad = " " * len(marker)
            ia: List[str] = []
            ib: List[str] = []
            # first child: a paragraph (so that the item content starts with text)
            a, b = c.paragraph_text()
            ia += a.split("\n")
            ib += b.split("\n")
            for _ in range(rng.choice([0, 0, 1, 2])):
                x, y = gen_block(c, ns_box, depth + 1, state)
                ia += [""] + x
                ib += [""] + y
            if i and loose:
                real.append("")
                plain.append("")
            real += [(marker if j == 0 else pad) + l if l else "" for j, l in enumerate(ia)]
            plain += [(marker if j == 0 else pad) + l if l else "" for j, l in enumerate(ib)]
        doc.tags.append("list-ordered" if ordered else "list-bullet")
        state["after_list"] = True
        return real, plain
    if k == 15:
        h, _ = c.brace(False, "html-block")
        doc.tags.append("html-block")
        lines = rng.choice([[f"<div class=\"x\">", f"raw {h} html *not emphasis*", "</div>"],
                            [f"<!-- comment {h} -->"],
                            ["<table><tr><td>", f"cell {h}", "</td></tr></table>"]])
        return lines, list(lines)
    if k == 16:
        doc.tags.append("thematic-break")
        return ["***"], ["***"]
    if k == 17:
        t, _ = c.brace(False, "ref-def")
        c.want_ref = False
        state["ref_defined"] = True
        doc.tags.append("link-ref-def")
        l = [f'[ref]: http://example.com/ref "title {t}"']
        return l, list(l)
    a, b = c.prose_run("text", 3)
    doc.tags.append("paragraph")
    return [a], [b]


def gen_doc(rng: random.Random, max_blocks: int = 8) -> GenDoc:
    doc = GenDoc()
    c = Ctx(rng, doc, allow_multiline=True)
    ns_box = [RecipeNS()]
    state: Dict[str, Any] = {}
    real: List[str] = []
    plain: List[str] = []
    n = rng.choice([1, 2, 3, 4, 5, 6, max_blocks])
    for i in range(n):
        if i == 0 and rng.random() < 0.4:
            state["heading"] = True
            a, b = gen_heading(c, True, force_h1=rng.random() < 0.8)
        else:
            a, b = gen_block(c, ns_box, 0, state)
        if i:
            real.append("")
            plain.append("")
        real += a
        plain += b
    if c.want_ref and not state.get("ref_defined"):
        real += ["", "[ref]: /some/where"]
        plain += ["", "[ref]: /some/where"]
    end = rng.choice(["\n", "\n", "", "\n\n"])
    doc.text = "\n".join(real) + end
    doc.plain = "\n".join(plain) + end
    if rng.random() < 0.08:
        doc.text = doc.text.replace("\n", "\r\n")
        doc.plain = doc.plain.replace("\n", "\r\n")
        doc.tags.append("crlf")
    return doc


# --------------------------------------------------------------------------- brace expressions in image alt text
# (crashed with AttributeError before the fix "brace expressions inside image alt text render as plain text")

IMAGE_ALT_DOCS = [
    "![a {2} b](x.png)\n",
    "# Title\n\nSee ![{1/2} cup](cup.png \"t\") here.\n",
    "![*nested {3} emphasis*](y.png)\n",
    "![a {2} <b> {1/2} c &amp; {1.50} ' \" {x &lt; y}](x.png)\n",
    "# ![{4}](t.png) for 2\n\n![100% {1 1/2}](p.png) and {3}\n",
]
