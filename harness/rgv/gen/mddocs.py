"""Seeded generator of Markdown documents with embedded recipe blocks (C19, usable by C13).

A document is assembled line by line, so the generator KNOWS on which file line every
recipe line stands (that knowledge is the independent oracle of C19).  Containers:
top level, block quote, bullet / ordered list item (block after a paragraph or directly on
the marker line), quote in list, list in quote, nested list.  Blocks: indented (spaces or
tab) and fenced (``` or ~~~, longer fences, indented fences, `recipe` / `new-recipe`, closing
fence missing at end of file), several blocks per document, blank lines inside blocks,
multi-line statements, tabs inside statements, non-recipe fenced blocks in between.

`gen_doc(rng)` returns a `Doc` without fault; `inject(doc, rng, ...)` returns a copy with ONE fault
(kinds: redef, prop, stray, eof, repeat = a block repeated verbatim) at a chosen statement position of a chosen block;
`render(doc, eol)` gives the text.
"""
from __future__ import annotations

import copy
import random
from dataclasses import dataclass, field
from typing import Any, Dict, List, Optional, Tuple

PROSE = ["Spam and eggs", "A little prose here.", "Mix well; serve hot", "for 2 people or more", "Notes on the method",
         "it's 100% fine", "see *below* for `details`", "A line with a trailing backslash\\", "Crème fraîche & co",
         "1986 was a good year", "Some text: with colon", "x = 1 a", "qty\tunit\tname\tnotes"]

CONTAINERS = ["top", "quote", "list", "olist", "list-direct", "quote-in-list", "list-in-quote", "nested-list"]


@dataclass
class Block:
    kind: str                     # "indented" | "fenced"
    container: str
    lang: str = ""                # "recipe" | "new-recipe" ("" for indented)
    fence: str = "```"
    fence_indent: int = 0
    info_pad: str = ""
    tab_indent: str = "    "      # indentation used for indented blocks ("    ", "\t", "  \t", "     ")
    close: bool = True            # closing fence present
    blank_style: str = ""         # how blank lines inside an indented block are written
    stmts: List[List[str]] = field(default_factory=list)   # statement = list of recipe lines
    blank_after: List[int] = field(default_factory=list)   # blank recipe lines after statement i
    # filled by render():
    start_line: int = 0
    rlines: List[Tuple[str, int]] = field(default_factory=list)   # (recipe line text, file line number)


@dataclass
class Doc:
    items: List[Any] = field(default_factory=list)   # ("lines", [str]) | ("block", Block)
    final_newline: bool = True
    fault: Optional[Dict[str, Any]] = None
    lead: str = "none"               # how the file starts: none | blank1..3 | bom | bom+blank

    def blocks(self) -> List[Block]:
        return [it[1] for it in self.items if it[0] == "block"]


# --------------------------------------------------------------------------- statements

class Names:
    def __init__(self) -> None:
        self.n = 0

    def fresh(self) -> int:
        self.n += 1
        return self.n


def gen_stmt(rng: random.Random, names: Names, defined: List[str]) -> List[str]:
    n = names.fresh()
    k = rng.randrange(21)
    if k == 19:
        # text that looks like an HTML character reference (it is literal recipe text)
        return [rng.choice([f"1 salt &amp; pepper{n}", f"2 &deg;C item{n}", f"1 x&lt;y{n}", f"3 &#65;pple{n}",
                            f"1 'item{n} &quot;quoted&quot;'", f"1 AT&T{n} &amp;amp; co"])]
    if k == 20:
        defined.append(f"amp{n}&amp;")
        return [f"amp{n}&amp; = 200g fish &amp; chips{n}"]
    if k == 17:
        # a line whose first character is "#" (a legal ingredient name)
        return [rng.choice([f"#{n} mix", f"# of eggs {n}", f"#item{n}, chopped"])]
    if k == 18:
        defined.append(f"#n{n}")
        return [f"#n{n} = 2 #item{n}"]
    if k == 13:
        # decomposed (NFD) spellings: base letter + combining mark(s)
        return [rng.choice([f"1 jalapen\u0303o{n}", f"2 cre\u0300me bru\u0302le\u0301e{n}", f"1 pin\u0303a cola\u0300da{n}"])]
    if k == 14:
        defined.append(f"n\u0303{n}")
        return [f"n\u0303{n} = 200g man\u0303ana e\u0301clair{n}"]
    if k == 0:
        return [f"1\titem{n}"]
    if k == 1:
        return [f"- item{n}"]
    if k == 2:
        return [f"2 #item{n}"]
    if k == 3:
        return [f"1 'item {n}: special'"]
    if k == 4:
        return [f"1 crème{n}"]
    if k == 5:
        return [f"1 1/2 cups item{n}"]
    if k == 6:
        return [f"{{3 large}} item{n}"]
    if k == 7:
        return [f"1 item{n}, chopped, fried"]
    if k == 8:
        defined.append(f"n{n}")
        return [f"n{n} = 200g item{n}"]
    if k == 9 and defined:
        return [f"1/2 of {defined[-1]}"]
    if k == 10:
        return [f"mix{n} = mix(", f"  1 item{n}a,", "", f"  2 tsp item{n}b", ")"] if rng.random() < 0.3 else \
               [f"mix{n} = mix(", f"  1 item{n}a,", f"  2 tsp item{n}b", ")"]
    if k == 11:
        return [f"fry(1 item{n}a, 2 item{n}b)"]
    if k == 12:
        return [f"2 tsp  item{n}  "]
    return [f"{rng.randrange(1, 900)} item{n}"]


# --------------------------------------------------------------------------- documents

def gen_block(rng: random.Random, names: Names, container: str, first_in_group: bool) -> Block:
    kind = rng.choice(["indented", "fenced", "fenced"])
    b = Block(kind=kind, container=container)
    if kind == "fenced":
        b.lang = rng.choice(["recipe", "recipe", "new-recipe"])
        b.fence = rng.choice(["```", "~~~", "````", "~~~~~"])
        b.fence_indent = rng.choice([0, 0, 0, 1, 2, 3])
        b.info_pad = rng.choice(["", "", " ", "  "])
    else:
        b.tab_indent = rng.choice(["    ", "    ", "\t", "\t", "  \t", "     "]) if container == "top" else "    "
        b.blank_style = rng.choice(["", "", "    ", "      "])
    defined: List[str] = []
    for _ in range(rng.choice([1, 1, 2, 3, 4, 6])):
        b.stmts.append(gen_stmt(rng, names, defined))
    b.blank_after = [rng.choice([0, 0, 0, 1, 2]) for _ in b.stmts]
    b.blank_after[-1] = 0
    return b


def gen_prose(rng: random.Random, n_lines: int) -> List[str]:
    out: List[str] = []
    while len(out) < n_lines:
        k = rng.randrange(8)
        if k == 7:
            # tab-separated table-like prose (tabs only inside the lines)
            out += [f"item{i}\t{i}\tg\tnote {i}\tx" for i in range(rng.randrange(2, 7))] + [""]
        elif k == 0:
            out += ["## " + rng.choice(PROSE), ""]
        elif k == 1:
            out += [rng.choice(PROSE), "-" * rng.randrange(3, 8), ""]
        elif k == 2:
            out += ["* " + rng.choice(PROSE), "* " + rng.choice(PROSE), "", rng.choice(PROSE), ""]
        elif k == 3:
            out += ["> " + rng.choice(PROSE), "> " + rng.choice(PROSE), ""]
        elif k == 4:
            out += ["```python", "print(1)", "", "x = 1 a", "```", ""]
        elif k == 5:
            out += ["", ""]
        else:
            out += [rng.choice(PROSE) for _ in range(rng.randrange(1, 4))] + [""]
    return out


def gen_doc(rng: random.Random) -> Doc:
    names = Names()
    d = Doc()
    style = rng.randrange(10)
    if style == 0:
        pre: List[str] = []                       # block first in the file
    elif style == 1:
        pre = ["# Title for 2", ""]
    elif style == 2:
        pre = ["Title", "=====", "", rng.choice(PROSE), ""]
    else:
        pre = ["# " + rng.choice(PROSE), ""] + gen_prose(rng, rng.choice([0, 2, 5, 12, 30, 60]))
    # the very start of the file: empty lines and / or a byte-order mark before anything else (they are lines /
    # characters of the file like any other: reported line numbers count them)
    d.lead = rng.choice(["none"] * 5 + ["blank1", "blank2", "blank3", "bom", "bom+blank"])
    if d.lead.startswith("blank"):
        pre = [""] * int(d.lead[-1]) + pre
    elif d.lead == "bom":
        pre = (["\ufeff" + pre[0]] + pre[1:]) if pre and pre[0] != "" else ["\ufeff", ""] + pre
    elif d.lead == "bom+blank":
        pre = ["\ufeff"] + [""] * rng.choice([1, 2, 3]) + pre
    if pre:
        d.items.append(("lines", pre))
    nblocks = rng.choice([1, 1, 2, 2, 3, 4])
    prev_indented_top = False
    for i in range(nblocks):
        container = rng.choice(CONTAINERS) if rng.random() < 0.6 else "top"
        b = gen_block(rng, names, container, i == 0)
        if b.kind == "indented" and container == "list-direct":
            b.container = container = "list"
        if b.kind == "indented" and container == "list-in-quote":
            # marko 0.9.1 mis-parses some indented code blocks of a list inside a quote (a first line "- x" becomes a
            # nested list, two blank quote lines restart the block): a marko matter (C13), not generated here
            b.container = container = "quote"
        if not pre and i == 0 and b.kind == "indented" and container != "top":
            b.container = container = "top"
        if i > 0:
            # separate blocks by prose (always needed between two indented blocks)
            sep = gen_prose(rng, rng.choice([1, 1, 3, 8]))
            if not sep or sep[0] == "":
                sep = [rng.choice(PROSE)] + sep
            d.items.append(("lines", sep if sep[-1] == "" else sep + [""]))
        d.items.append(("block", b))
        d.items.append(("lines", [""]))
    if rng.random() < 0.5:
        d.items.append(("lines", [rng.choice(PROSE)]))
        d.final_newline = rng.random() < 0.7
    else:
        # block last in the file
        d.items.pop()
        last = d.blocks()[-1]
        if last.kind == "fenced" and last.container == "top" and rng.random() < 0.3:
            last.close = False
        d.final_newline = rng.random() < 0.7
    return d


# --------------------------------------------------------------------------- rendering

def _container_prefixes(container: str, rng_tag: int) -> Tuple[List[str], str, str, str]:
    """(lead-in lines, prefix of the block's first line, prefix of its other lines, prefix for blank lines)."""
    if container == "top":
        return [], "", "", ""
    if container == "quote":
        return ["> A quoted paragraph", ">"], "> ", "> ", ">"
    if container == "list":
        return ["- An item", ""], "  ", "  ", ""
    if container == "olist":
        return ["1. An item", ""], "   ", "   ", ""
    if container == "list-direct":
        return [], "- ", "  ", ""
    if container == "quote-in-list":
        return ["- An item", "", "  > quoted", "  >"], "  > ", "  > ", "  >"
    if container == "list-in-quote":
        return ["> - An item", ">"], ">   ", ">   ", ">"
    if container == "nested-list":
        return ["- An item", "  - inner item", ""], "    ", "    ", ""
    raise ValueError(container)


def render(doc: Doc, eol: str = "\n", eol_rng: Optional[random.Random] = None) -> Tuple[str, List[str]]:
    """Returns (text, file lines); fills start_line / rlines of every block.
    eol = "\\n" | "\\r\\n" | "mixed" (then eol_rng picks per line)."""
    lines: List[str] = []
    for kind, it in doc.items:
        if kind == "lines":
            lines += it
            continue
        b: Block = it
        lead, p_first, p_rest, p_blank = _container_prefixes(b.container, 0)
        lines += lead
        b.rlines = []
        body: List[str] = []
        for st, nblank in zip(b.stmts, b.blank_after):
            body += st
            body += [""] * nblank
        if b.kind == "fenced":
            ind = " " * (0 if b.container == "list-direct" else b.fence_indent)
            b.start_line = len(lines) + 1
            lines.append(p_first + ind + b.fence + b.info_pad + b.lang + b.info_pad)
            for r in body:
                b.rlines.append((r, len(lines) + 1))
                if r:
                    lines.append(p_rest + ind + r)
                elif p_blank:
                    lines.append(p_blank)
                else:
                    lines.append("" if len(lines) % 2 == 0 else p_rest + ind)
            if b.close:
                lines.append(p_rest + ind + b.fence)
        else:
            b.start_line = len(lines) + 1
            for r in body:
                b.rlines.append((r, len(lines) + 1))
                if r:
                    lines.append(p_rest + b.tab_indent + r)
                elif p_blank:
                    lines.append(p_blank + (" " + b.blank_style if b.blank_style else ""))
                else:
                    lines.append(b.blank_style)
    if eol == "mixed":
        assert eol_rng is not None
        text = "".join(l + eol_rng.choice(["\n", "\r\n"]) for l in lines[:-1]) + (lines[-1] if lines else "")
        if doc.final_newline:
            text += eol_rng.choice(["\n", "\r\n"])
    else:
        text = eol.join(lines) + (eol if doc.final_newline else "")
    return text, lines


# --------------------------------------------------------------------------- sibling documents

def rewrap(doc: Doc, rng: random.Random) -> Optional[Doc]:
    """A sibling of a faulty document: the same characters at the same offsets, except that some spaces of the
    prose BEFORE the faulty block are line breaks instead (re-wrapped prose).  The faulty listing, its offset and
    its fence are identical, its line number is not.  None when there is nothing to re-wrap."""
    assert doc.fault is not None
    d = copy.deepcopy(doc)
    target = d.blocks()[d.fault["block"]]
    changed = 0
    for idx, (kind, it) in enumerate(d.items):
        if kind == "block":
            if it is target:
                break
            continue
        out: List[str] = []
        for line in it:
            cands = [i for i in range(1, len(line) - 1)
                     if line[i] == " " and line[i - 1].isalnum() and line[i + 1].isalnum() and line[:4].strip()]
            if cands and rng.random() < 0.7:
                i = rng.choice(cands)
                out += [line[:i], line[i + 1:]]
                changed += 1
            else:
                out.append(line)
        d.items[idx] = ("lines", out)
    return d if changed else None


# --------------------------------------------------------------------------- faults

STRAYS = [("start", ")"), ("end", ")"), ("start", "}"), ("end", "}"), ("eq", "="), ("colon", ":"), ("start", ","),
          ("multi", "}")]
PROPS = ["1/2 of {x}", "50% of {x}", "remaining {x}", "0.25 * {x}", "1/3 of the {x}", "fry(1 item{n}a, 1/2 of {x})",
         "multi"]


def positions(doc: Doc) -> List[Tuple[int, int]]:
    """All (block index, insertion position) pairs."""
    return [(bi, p) for bi, b in enumerate(doc.blocks()) for p in range(len(b.stmts) + 1)]


def _long_inputs(rng: random.Random, n: int, sep: str = ", ") -> str:
    """A one-line input list of 80-200 characters."""
    target = rng.randrange(80, 200)
    parts: List[str] = []
    i = 0
    while len(sep.join(parts)) < target:
        parts.append(f"{i + 1} item{n}x{i}")
        i += 1
    return sep.join(parts)


def _long_name(rng: random.Random, n: int) -> str:
    target = rng.randrange(80, 200)
    s = f"item{n}"
    i = 0
    while len(s) < target:
        s += f" and a very long ingredient name part {i}"
        i += 1
    return s


def inject(doc: Doc, rng: random.Random, kind: str, bi: int, p: int) -> Optional[Doc]:
    """One fault of the given kind inserted as a new statement at position p of block bi.
    doc.fault = {kind, block, stmt_index, line_in_stmt, col, token}."""
    d = copy.deepcopy(doc)
    b = d.blocks()[bi]
    n = 9000 + rng.randrange(1000)
    li = 0
    # shape of the faulty line: plain, tabs as horizontal white space, a long line (80-200 characters), both
    shape = rng.choice(["plain", "plain", "tab", "long", "long+tab", "entity"])
    ent = " &amp; x&lt;y &#65;" if shape == "entity" else ""    # entity-like literal text inside the faulty line
    if kind == "redef":
        name = f"dup{n}"
        second_name = rng.choice([name, name.upper(), name.capitalize()])
        if shape in ("plain", "entity"):
            second = [f"{second_name} = 2 item{n}b{ent}"]
        elif shape == "tab":
            second = [f"{second_name}\t=\t2\titem{n}b"]
        elif shape == "long":
            second = [f"{second_name} = mix({_long_inputs(rng, n)})"]
        else:
            second = [f"{second_name}\t= mix({_long_inputs(rng, n, ',' + chr(9))})"]
        col, token = 0, second_name
        # first definition: earlier in the same block, or in an earlier block of the same independent recipe
        cands: List[Tuple[int, int]] = [(bi, q) for q in range(p + 1)]
        bj = bi
        blocks = d.blocks()
        while bj > 0 and not (blocks[bj].kind == "fenced" and blocks[bj].lang == "new-recipe"):
            bj -= 1
            cands += [(bj, q) for q in range(len(blocks[bj].stmts) + 1)]
        fb, fq = rng.choice(cands)
        b.stmts.insert(p, second)
        b.blank_after.insert(p, rng.choice([0, 0, 1]) if p < len(b.blank_after) else 0)
        first_b = blocks[fb]
        first_b.stmts.insert(fq, [f"{name} = 1 item{n}a"])
        first_b.blank_after.insert(fq, 0)
        if fb == bi:
            p += 1
        _fix_last_blank(first_b)
    elif kind == "prop":
        tpl = rng.choice(PROPS)
        x = f"nothing{n}" + ("&amp;&deg;" if shape == "entity" else "")
        if tpl == "multi":
            st = [f"fry(", f"  1 item{n}a,", f"  1/3 of {x},", f"  2 item{n}c", ")"]
            li, col, token = 2, 2, f"1/3 of {x}"
        else:
            line = tpl.format(x=x, n=n)
            tok = line if not line.startswith("fry(") else f"1/2 of {x}"
            if shape in ("long", "long+tab"):
                line = f"fry({_long_inputs(rng, n)}, {tok})"
            if shape in ("tab", "long+tab"):
                line, tok = line.replace(" ", "\t"), tok.replace(" ", "\t")
            st = [line]
            col, token = line.index(tok), tok
        b.stmts.insert(p, st)
        b.blank_after.insert(p, rng.choice([0, 0, 1]) if p < len(b.blank_after) else 0)
    elif kind == "stray":
        where, tok = rng.choice(STRAYS)
        if where == "start":
            line = f"{tok} item{n}{ent}"
            col = 0
        elif where == "end":
            line = f"2 &lt;item{n}{ent} {tok}" if ent else f"2 item{n} {tok}"
            col = len(line) - 1
        elif where == "eq":
            line = f"x{n} = = 2 item{n}"
            col = line.index("= =") + 2
        elif where == "colon":
            line = f"2 item{n}: more"
            col = line.index(":")
        else:
            line = ""
        if where != "multi":
            if shape in ("long", "long+tab"):
                line = (f"{tok} {_long_name(rng, n)}" if where == "start" else
                        f"2 {_long_name(rng, n)} {tok}" if where == "end" else
                        f"x{n} = = mix({_long_inputs(rng, n)})" if where == "eq" else
                        f"2 item{n}: {_long_name(rng, n)}")
            if shape in ("tab", "long+tab"):
                line = line.replace(" ", "\t")
            col = (0 if where == "start" else len(line) - 1 if where == "end" else
                   line.index("=") + 2 if where == "eq" else line.index(":"))
        if where == "multi":
            st = ["fry(", f"  1 item{n}a,", f"  2 item{n}b }}", ")"]
            li, col = 2, len(st[2]) - 1
        else:
            st = [line]
        token = tok
        b.stmts.insert(p, st)
        b.blank_after.insert(p, rng.choice([0, 0, 1]) if p < len(b.blank_after) else 0)
    elif kind == "eof":
        # unclosed parenthesis in the LAST statement of the block: the parser fails at the end of the block source
        p = len(b.stmts)
        st = [f"fry(1 item{n}a"] if rng.random() < 0.5 else ["fry(", f"  1 item{n}a,"]
        li, col, token = len(st) - 1, -1, ""
        b.stmts.insert(p, st)
        b.blank_after.insert(p, 0)
    elif kind == "repeat":
        # block bi becomes a VERBATIM REPEAT of the previous block of the same independent recipe, which starts with a
        # named definition: the repeat's first statement is a redefinition (its AST equals the earlier block's AST)
        if bi == 0:
            return None
        prev = d.blocks()[bi - 1]
        name = f"rep{n}"
        prev.stmts.insert(0, [f"{name} = 1 item{n}a"])
        prev.blank_after.insert(0, rng.choice([0, 0, 1]))
        _fix_last_blank(prev)
        b.stmts = copy.deepcopy(prev.stmts)
        b.blank_after = list(prev.blank_after)
        if b.kind == "fenced":
            b.lang = "recipe"
        p, li, col, token = 0, 0, 0, name
    else:
        raise ValueError(kind)
    _fix_last_blank(b)
    d.fault = {"kind": kind, "block": bi, "stmt": p, "line_in_stmt": li, "col": col, "token": token,
               "shape": shape if kind in ("redef", "prop", "stray") else "plain"}
    return d


def _fix_last_blank(b: Block) -> None:
    b.blank_after[-1] = 0
    if len(b.blank_after) >= 2 and b.kind == "indented":
        pass


def fault_location(doc: Doc) -> Tuple[int, int, int, str]:
    """After render(): (block index, index j of the fault's recipe line within the block's recipe lines,
    file line number, recipe line text)."""
    f = doc.fault
    assert f is not None
    b = doc.blocks()[f["block"]]
    j = 0
    for st, nblank in list(zip(b.stmts, b.blank_after))[: f["stmt"]]:
        j += len(st) + nblank
    j += f["line_in_stmt"]
    r, ln = b.rlines[j]
    return f["block"], j, ln, r
