"""Seeded generator of recipe-website source trees (C14-C17).  Pure: needs nothing of /repo.

A site spec is a JSON-able dict

    {"M": max_servings,
     "input": ["src"] | ["srclink"] | ["src", "..", "src"]   path of the input directory below the base directory
     "base": dirnode}                                         the whole scratch tree: base/src is the source root,
                                                              base/outside holds files that must never leak
    node := {"k": "d", "name": str, "ch": [node, ...]}        directory; the order of "ch" is the LISTING ORDER
          | {"k": "f", "name": str, "text": str}              text file (Markdown), written as UTF-8
          | {"k": "f", "name": str, "hex": str}               binary file
          | {"k": "l", "name": str, "target": str}            symbolic link; "{BASE}" in the target = absolute base path

`gen_site(rng, profile)` profiles: "valid" (a site that must generate), "errors" (one planted fault of a documented
error class), "f12" / "f13" / "f15" (the known findings).  Cross-links are spelled relative, parent-relative (more
`..` than needed, also through the source root's own name), root-absolute, percent-encoded (needed, gratuitous and
lower-case escapes), raw Unicode, with query and fragment, through symbolic links, as Markdown links, images and inline
HTML.  Directory and file names come from pools with spaces, Unicode and `# ? % & ' " + ; = ~ :`.
"""
from __future__ import annotations

import random
from typing import Any, Dict, Iterator, List, Optional, Sequence, Tuple
from urllib.parse import quote

Node = Dict[str, Any]

DIR_NAMES = [
    "pasta", "Indian Mains", "sides&dips", "it's", 'say "hi"', "q?r", "a#b dir", "100%", "50%25 off", "日本料理",
    "Crème brûlée", "snake_case_name", "CamelCaseName", "x2y", "MY_DIR", "a+b", "semi;colon", "eq=als", "tilde~",
    "dot.ted", "2024", "mixed_Case-and 9lives", "ÀÉ", ":colon", "serves1", "categories", "assets", "css", " lead",
    "trail ", "back\\slash", "at@home", "com,ma", "star*", "(paren)", "[sq]", "{cur}", "dollar$", "ex!cl", "pi|pe",
    "caret^", "gr`ave", "a\tb", "KKelvin", "İstanbul", "x y", "emoji\U0001F35D", "UPPER", "lower",
    "Tea2Go", "ABCdef", "a_b-c d", "é", "mdx", "readme", "index",
    " ", "\u3000", "  ", ".staging", ".staging", ".cache dir", "preserves", "preserves", "conserves & jams", "serves you right", "Reserves", "it deserves",
]
STEMS = [
    "spag bol", "lasagne", "tikka_masala", "Saag Aloo", "q?r", "a#b", "100%", "50%25", "it's", 'quo"te', "a&b",
    "日本", "Crème", "a+b", "x;y", "e=mc2", "tilde~", "dot.ted.name", "2", "UPPER", ":c", " sp", "sp ", "a\\b",
    "a@b", "c,d", "st*r", "(p)", "[s]", "ex!", "g`r", "K", "\U0001F35D", "roti", "naan", "dal", "x.html",
    "readme2", "index2", "serves3", "a%2Fb", "%41", "%zz", "plus+plus", "preserves", "deserves more", "conserves",
    "x", "me", "e", "ex", "dex", "dme", "adme", "ndex", "eadme", "d",
    ".kitchen-notes", ".kitchen-notes", ".x", ".hidden recipe",
]
MD_EXTS = [".md", ".md", ".md", ".MD", ".Md", ".mD"]
README_NAMES = ["README.md", "index.md", "readme.md", "Readme.MD", "INDEX.MD", "ReadMe.md", "Index.Md"]
ASSET_NAMES = [
    "pic.png", "photo 1.jpg", "data", "notes.txt", "archive.tar.gz", "ünï.svg", "q?.gif", "a#b.png", "100%.css",
    "x.html", "it's.pdf", 'd"q.bin', "a&b.js", "日本.webp", "UP.PNG", "a+b.ico", "semi;.txt", "%41.txt", "sp ace.md.txt",
    "no_ext.", "tab\t.txt", "readme.txt", "index.markdown", "c++tips.txt", "c++tips.txt", "1+1.png",
    "notes;v2.txt", "pic;1.png", "notes;v2.txt", ".hidden.png", "a\\b.txt",
]
TITLES = [
    "Spag Bol", "Lasagne", "Same", "Same", "Same", "same", "Tikka & Masala", "It's \"good\"", "日本のカレー", "Crème brûlée",
    "A", "B", "a", "Z", "É", "e", "100 ways", "Dal: the basics", "Roti (plain)", "Naan -- fast", "x > y", "Tea, two ways",
    "\U0001F35D pasta", "Äpfel", "apple", "Apple", "Zebra cake",
    "A very long recipe title that goes on and on for well over sixty five characters, version one",
    "A very long recipe title that goes on and on for well over sixty five characters, version two",
    "Slow roasted shoulder of lamb with anchovies, rosemary, garlic and far too many potatoes",
    "Bread \\<quick\\>", "x<y", "a &amp;amp; b", "1 < 2 > 0", "Quick \\<easy\\> bakes", "R&amp;D \\<b\\>bold\\</b\\>",
]
PREPS = ["for", "serves", "serve", "to serve", "makes", "serving", "For", "SERVES", "to make", "to  serves",
         "For", "MAKES", "Serves", "TO SERVE", "To Make", "Serving", "fOr", "Makes"]
QUERIES = ["", "", "", "?x=1", "?a=1&b=2", "?q", "?"]
FRAGS = ["", "", "", "#top", "#sec-1", "#a.b", "#"]
EXTERNALS = ["http://example.com/", "https://example.com/a%20b?q=1#f", "mailto:chef@example.com", "//cdn.example.com/lib.js",
             "ftp://example.com/x.md", "HTTP://EXAMPLE.COM/README.md", "data:text/plain;base64,QUJD", "tel:+441234"]
INPAGE = ["#top", "#", "?q=1", "?q=1#f", "#a/b.md"]
PROSE = ["Mix well", "Serve hot", "A little prose here.", "Notes on the method", "Crème fraîche & co", "it's fine",
         "see *below*", "1986 was a good year"]


def D(name: str, ch: Optional[List[Node]] = None) -> Node:
    return {"k": "d", "name": name, "ch": ch if ch is not None else []}


def F(name: str, text: Optional[str] = None, data: Optional[bytes] = None) -> Node:
    if text is not None:
        return {"k": "f", "name": name, "text": text}
    return {"k": "f", "name": name, "hex": (data or b"").hex()}


def L(name: str, target: str) -> Node:
    return {"k": "l", "name": name, "target": target}


def is_readme_name(name: str) -> bool:
    return name.lower() in ("readme.md", "index.md")


def is_md_name(name: str) -> bool:
    i = name.rfind(".")
    return 0 < i < len(name) - 1 and name[i:].lower() == ".md"


def stem_of(name: str) -> str:
    return name.rpartition(".")[0]


def walk(node: Node, parts: Tuple[str, ...] = ()) -> Iterator[Tuple[Tuple[str, ...], Node]]:
    """Yield (parts below src, node) for every node below [node] (a directory), depth first."""
    for ch in node["ch"]:
        p = parts + (ch["name"],)
        yield p, ch
        if ch["k"] == "d":
            yield from walk(ch, p)


def find(node: Node, parts: Sequence[str]) -> Optional[Node]:
    cur = node
    for p in parts:
        if cur["k"] != "d":
            return None
        nxt = [c for c in cur["ch"] if c["name"] == p]
        if not nxt:
            return None
        cur = nxt[0]
    return cur


# ------------------------------------------------------------------------------------------------ link spelling

def enc_component(rng: random.Random, c: str, style: str) -> str:
    """Percent-encode one path component. style: plain | over | lower | rawuni"""
    if style == "rawuni" and c == c.strip():
        # (Unicode white space at the edges of a component must be written encoded: Markdown trims it)
        out = "".join(ch if ord(ch) > 127 and not ch.isspace() else quote(ch, safe="") for ch in c)
    else:
        out = quote(c, safe="")
    if "%3B" in out and rng.random() < 0.7:
        out = out.replace("%3B", ";")          # a literal ";" in a path segment belongs to the path
    if "%2B" in out and rng.random() < 0.7:
        out = out.replace("%2B", "+")          # a literal "+" is a plus sign in a URL path, not a space
    if style == "over":
        res = []
        i = 0
        while i < len(out):
            ch = out[i]
            if ch == "%":
                res.append(out[i:i + 3])
                i += 3
                continue
            if ch.isalnum() and rng.random() < 0.3:
                res.append("%%%02X" % ord(ch))
            elif ch == "." and rng.random() < 0.3:
                res.append("%2E")
            else:
                res.append(ch)
            i += 1
        out = "".join(res)
    if style == "lower":
        res = []
        i = 0
        while i < len(out):
            if out[i] == "%":
                res.append(out[i:i + 3].lower())
                i += 3
            else:
                res.append(out[i])
                i += 1
        out = "".join(res)
    return out


def spell(rng: random.Random, from_dir: Sequence[str], target: Sequence[str], form: str, style: str,
          root_name: str = "src", is_dir: bool = False) -> str:
    """URL text of a link written in a file of directory [from_dir] (parts below the root) to [target]."""
    from_dir, target = list(from_dir), list(target)
    if form == "abs":
        comps = [""] + target
        if not target:
            comps = ["", ""]
    else:
        k = 0
        while k < len(from_dir) and k < len(target) and from_dir[k] == target[k]:
            k += 1
        if form == "rel":
            ups, downs = len(from_dir) - k, target[k:]
        elif form == "parent":       # further up than needed (stays inside the root)
            k2 = rng.randrange(0, k + 1)
            ups, downs = len(from_dir) - k2, target[k2:]
        else:                          # "through": above the root and back in through its name
            ups, downs = len(from_dir) + 1, [root_name] + target
        comps = [".."] * ups + downs
        if not comps:
            comps = ["."]
        elif form == "rel" and rng.random() < 0.15:
            comps = ["."] + comps
    out = "/".join(c if c in ("..", ".", "") else enc_component(rng, c, style) for c in comps)
    if is_dir and out and not out.endswith("/") and rng.random() < 0.4:
        out += "/"
    if rng.random() < 0.08 and "/" in out:
        i = out.index("/")
        if i > 0:
            out = out[:i] + "//" + out[i + 1:]       # doubled slash inside (never at the start: that is a netloc)
    return out


def md_link(rng: random.Random, url: str, image: bool = False) -> str:
    r = rng.random()
    text = rng.choice(["here", "this one", "the *other* page", "x"])
    if image:
        if r < 0.8:
            return f"![{text}]({url})"
        q = "'" if '"' in url else '"'
        return f"<img src={q}{url}{q} alt='i'>"
    if r < 0.62:
        return f"[{text}]({url})"
    if r < 0.70 and "'" not in url and '"' not in url and "(" not in url and ")" not in url:
        # raw HTML whose URL sits in another attribute (lxml.html.iterlinks: data, cite, background ..., style url())
        return rng.choice([f'<object data="{url}">{text}</object>', f'<q cite="{url}">{text}</q>',
                           f'<span style="background: url({url})">{text}</span>',
                           f'<object data=" {url} "></object>'])
    if r < 0.8:
        return f"[{text}](<{url}>)" if "<" not in url and ">" not in url else f"[{text}]({url})"
    pad = rng.choice(["", " ", "  "])
    q = "'" if '"' in url else '"'
    return f"<a href={q}{pad}{url}{pad}{q}>{text}</a>"


# ------------------------------------------------------------------------------------------------ documents

def recipe_text(rng: random.Random, title: Optional[str], servings: Optional[int], links: List[str],
                fault: Optional[str] = None) -> str:
    lines: List[str] = []
    pre_links = []
    if links and rng.random() < 0.15:
        pre_links, links = links[:1], links[1:]
    if pre_links:
        lines += ["Before the title " + pre_links[0], ""]
    if title == "":
        # an EMPTY first heading: the title is "" (accepted: it is not None); with a serving count through an entity
        if servings is None:
            lines += [rng.choice(["#", "# ", "#   "]), ""]
        else:
            lines += ["# " + rng.choice(["&nbsp;", "&#32;", "&#x20;", "&ensp;"]) + " " + rng.choice(["for", "serves", "makes"]) + " " + str(servings), ""]
    elif title is not None:
        h = "# " + title
        if servings is not None:
            sp = [" ", " ", " ", "  ", "\u00a0", "\u2009", "\u3000", " \u00a0"]
            h += rng.choice(sp) + rng.choice(PREPS) + rng.choice(sp) + str(servings) + rng.choice(["", "", "\u00a0"])
        lines += [h, ""]
    if fault == "compile":
        lines += ["    1 egg", "    fry(egg), (", ""]
    body = []
    for _ in range(rng.randrange(0, 3)):
        body.append(rng.choice(PROSE) + rng.choice(["", " {2}", " {1/2} cups", " {1.5}kg and {3} more"]))
    for ln in links:
        body.append(rng.choice(PROSE) + " " + ln + rng.choice(["", " and more.", " {4} times"]))
    if rng.random() < 0.12:
        # a literal "%" and a run of upper-case letters (as long as a compiler placeholder, or one shorter / longer)
        # immediately followed by a scaled value
        run = "ABCDEFGHIJKLMNOPQRSTUVWXYZABCDEFGH"[:rng.choice([31, 32, 32, 32, 33])]
        body.append(rng.choice(["Code %" + run + "{2 tsp} of it", "%" + run + "{3}", "Batch %" + run + "{1/2} and %" + run + "{4}"]))
    if rng.random() < 0.25:
        # a {..} expression wrapped over two source lines (a soft line break inside the braces)
        body.append(rng.choice(["Serve with {8\nsmall burgers} each", "Needs {3\nlarge} tins and {1/2\ncup} oil",
                                "About {6\n} in all", "Lay out {12 \nwraps}, warm"]))
    rng.shuffle(body)
    for b in body:
        lines += [b, ""]
    if rng.random() < 0.7:
        q = rng.choice(["1", "2", "200g", "1/2 cup", "3 large"])
        a, b2 = rng.choice([("egg", "spam"), ("flour", "water"), ("rice", "peas")])
        if rng.random() < 0.3:
            # the same recipe split over several code blocks (indented block, then ```recipe fences that follow it and
            # share its names); quantities also in the LATER blocks
            c3, c4 = rng.choice([("milk", "sugar"), ("oil", "salt"), ("stock", "herbs")])
            lines += [f"    {q} {a}", f"    {rng.choice(['1 tsp', '50ml', '4'])} {b2}", "",
                      rng.choice(PROSE) + rng.choice(["", " {6}"]), "",
                      "```recipe", f"{rng.choice(['3', '5', '1/2', '1 1/2', '2.5'])} {c3}", f"mix({a}, {b2}, {c3})", "```", ""]
            if rng.random() < 0.5:
                lines += ["Then:", "", "```recipe", f"{rng.choice(['7', '9', '3/4'])} {c4}",
                          f"bake(mix({a}, {b2}, {c3}), {c4})", "```", ""]
        else:
            lines += [f"    {q} {a}", f"    {rng.choice(['1 tsp', '50ml', '4'])} {b2}", f"    mix({a}, {b2})", ""]
        if rng.random() < 0.2:
            # a sub recipe that is REFERENCED twice (so not inlined: it gets an id= anchor and href="#..." links) and
            # whose name has no ASCII letter or digit
            nm = rng.choice(["\u9171", "\u0421\u043e\u0443\u0441", "\U0001F35D", "\u00e9\u00e8"])
            lines[-1:-1] = [f"    {nm} = stir(2 soy, 1 honey)", f"    glaze(1/2 {nm}, 3 wings)", f"    dip(1/2 {nm}, 1 bread)"]
        if rng.random() < 0.3:
            # ingredients WITHOUT a leading quantity whose description holds a scaled number
            lines[-1:-1] = [f"    {rng.choice(['rosemary', 'bay', 'lime'])} {{{rng.choice(['4', '6', '3'])} {rng.choice(['sprigs', 'leaves', 'wedges'])}}}"]
            if rng.random() < 0.5:
                lines[-1:-1] = [f"    chop(garlic {{{rng.choice(['2', '8'])} cloves}})"]
    if rng.random() < 0.2:
        lines += ["## Notes", "", rng.choice(PROSE) + " {10}", ""]
    return "\n".join(lines)


def readme_text(rng: random.Random, title: Optional[str], links: List[str], fault: Optional[str] = None) -> str:
    lines: List[str] = []
    if fault == "readme-missing-title":
        lines += [rng.choice(["Just prose, no heading.", "## Level two only", ""]), ""]
    elif fault == "readme-malformed-title":
        lines += ["# " + (title or "T") + rng.choice([" *emph*", " `code`", " [l](x)"]), ""]
    else:
        lines += ["# " + (title or "T"), ""]
    for _ in range(rng.randrange(0, 2)):
        lines += [rng.choice(PROSE), ""]
    for ln in links:
        lines += [rng.choice(PROSE) + " " + ln, ""]
    return "\n".join(lines)


# ------------------------------------------------------------------------------------------------ trees

def _pick_names(rng: random.Random, pool: List[str], n: int, taken: set, key=lambda x: x) -> List[str]:
    out = []
    for _ in range(n * 6):
        if len(out) >= n:
            break
        c = rng.choice(pool)
        if key(c) in taken:
            continue
        taken.add(key(c))
        out.append(c)
    return out


def gen_skeleton(rng: random.Random, depth: int, max_depth: int, fan: int, budget: List[int]) -> List[Node]:
    """Children of a directory at [depth] (root = 0): sub-directories, recipe stubs, assets, readme."""
    ch: List[Node] = []
    names: set = set()
    stems: set = set()
    if rng.random() < (0.6 if depth else 0.7):
        nm = rng.choice(README_NAMES)
        names.add(nm)
        ch.append({"k": "f", "name": nm, "role": "readme"})
    n_rec = rng.randrange(0, fan + 1) if depth else rng.randrange(0, 3)
    for st in _pick_names(rng, STEMS, n_rec, stems):
        if budget[0] <= 0:
            break
        nm = st + rng.choice(MD_EXTS)
        if nm in names or is_readme_name(nm):
            continue
        names.add(nm)
        budget[0] -= 1
        ch.append({"k": "f", "name": nm, "role": "recipe"})
        if rng.random() < 0.2:
            # a local file that shares its stem with the recipe (leek.md + leek.jpg)
            tw = st + rng.choice([".jpg", ".png", ".txt", ".pdf"])
            if tw not in names:
                names.add(tw)
                ch.append({"k": "f", "name": tw, "role": "asset", "twin": True,
                           "hex": bytes(rng.randrange(256) for _ in range(rng.randrange(4, 30))).hex()})
    if depth < max_depth and rng.random() < 0.12 and "img" not in names and "img\\pic.txt" not in names:
        # a file with a literal BACKSLASH in its name next to a directory img/ holding pic.txt
        names.update(["img", "img\\pic.txt"])
        ch.append({"k": "f", "name": "img\\pic.txt", "role": "asset", "twin": True,
                   "hex": (b"BACKSLASH" + bytes(rng.randrange(256) for _ in range(6))).hex()})
        ch.append({"k": "d", "name": "img", "ch": [{"k": "f", "name": "pic.txt", "role": "asset", "twin": True,
                                                     "hex": (b"GENUINE" + bytes(rng.randrange(256) for _ in range(6))).hex()}]})
    for nm in _pick_names(rng, ASSET_NAMES, rng.randrange(0, 3), names):
        if is_md_name(nm) or is_readme_name(nm):
            continue
        ch.append({"k": "f", "name": nm, "role": "asset",
                   "hex": bytes(rng.randrange(256) for _ in range(rng.randrange(0, 40))).hex()})
        if ";" in nm and nm.split(";")[0] and nm.split(";")[0] not in names and rng.random() < 0.7:
            names.add(nm.split(";")[0])
            ch.append({"k": "f", "name": nm.split(";")[0], "role": "decoy",
                       "hex": (b"DECOY;" + bytes(rng.randrange(256) for _ in range(12))).hex()})
        if "+" in nm and nm.replace("+", " ") not in names and rng.random() < 0.6:
            names.add(nm.replace("+", " "))
            ch.append({"k": "f", "name": nm.replace("+", " "), "role": "decoy",
                       "hex": (b"DECOY" + bytes(rng.randrange(256) for _ in range(12))).hex()})
    if depth < max_depth:
        n_sub = rng.randrange(0, fan + 1)
        if depth == 0 and n_sub == 0 and rng.random() < 0.8:
            n_sub = 1
        for nm in _pick_names(rng, DIR_NAMES, n_sub, names):
            if budget[1] <= 0:
                break
            # a directory whose name is <recipe stem>.html (or index.html) collides with a page path: kept out of
            # the regular stream (reported separately as a suspected defect)
            if nm + "/" in names or any(stem_of(x) + ".html" == nm for x in names) or nm == "index.html":
                continue
            budget[1] -= 1
            ch.append({"k": "d", "name": nm, "ch": gen_skeleton(rng, depth + 1, max_depth, fan, budget)})
    rng.shuffle(ch)
    return ch


def force_names(rng: random.Random, src: Node, opt: str) -> None:
    """opt "ws": some directory is named with white space only; "rm": recipe files whose names are substrings of
    'readme.mdindex.md' (x.md, me.md, dex.md ...)."""
    all_dirs = [src] + [n for _p, n in walk(src) if n["k"] == "d"]
    if "ws" in opt:
        parent = rng.choice(all_dirs)
        subs = [c for c in parent["ch"] if c["k"] == "d"]
        nm = rng.choice([" ", "\u3000", "  ", "\u3000 "])
        if not any(c["name"] == nm for c in parent["ch"]):
            if subs and rng.random() < 0.7:
                rng.choice(subs)["name"] = nm
            else:
                parent["ch"].append({"k": "d", "name": nm, "ch": [{"k": "f", "name": "inside.md", "role": "recipe"},
                                                                    {"k": "f", "name": "README.md", "role": "readme"}]})
    if "st" in opt:
        parent = rng.choice(all_dirs)
        base = rng.choice(["mains", "sides & dips", "Cakes"])
        sufs = rng.sample([".v1", ".v2", ".old", ".2024", ".bak"], k=rng.choice([2, 2, 3]))
        title = rng.choice(["Mains", "Same", "Équal"])
        for sf in sufs:
            if not any(c["name"] == base + sf for c in parent["ch"]):
                parent["ch"].insert(rng.randrange(len(parent["ch"]) + 1),
                                    {"k": "d", "name": base + sf,
                                     "ch": [{"k": "f", "name": rng.choice(["README.md", "index.md"]), "text": "# " + title + "\n\nThe " + sf + " one\n"},
                                            {"k": "f", "name": "dish" + sf + ".md", "text": "# Dish for 2\n\n    2 eggs\n"}]})
    if "rm" in opt:
        for d in rng.sample(all_dirs, k=min(len(all_dirs), 2)):
            for st in rng.sample(["x", "me", "e", "ex", "dex", "dme", "adme", "ndex", "d"], k=2):
                nm = st + rng.choice([".md", ".md", ".MD"])
                if not any(c["name"].lower() == nm.lower() for c in d["ch"]):
                    d["ch"].append({"k": "f", "name": nm, "role": "recipe"})


def _targets(src: Node) -> Dict[str, List[Tuple[Tuple[str, ...], Node]]]:
    t: Dict[str, List[Tuple[Tuple[str, ...], Node]]] = {"recipe": [], "readme": [], "asset": [], "dir": [((), src)],
                                                         "link": [], "decoy": []}
    for p, n in walk(src):
        if n["k"] == "d":
            t["dir"].append((p, n))
        elif n["k"] == "l":
            t["link"].append((p, n))
        else:
            t[n.get("role", "asset")].append((p, n))
    return t


def gen_links(rng: random.Random, from_dir: Tuple[str, ...], tg: Dict[str, Any], n: int, allow_image: bool = True
              ) -> List[str]:
    """[n] Markdown link texts to valid targets (recipes, directories, readmes, assets, externals, in-page)."""
    out = []
    for _ in range(n):
        r = rng.random()
        form = rng.choice(["rel", "rel", "parent", "abs", "abs", "through"])
        style = rng.choice(["plain", "plain", "over", "lower", "rawuni"])
        qf = rng.choice(QUERIES) + rng.choice(FRAGS)
        image = False
        if r < 0.08:
            url = rng.choice(EXTERNALS)
        elif r < 0.14:
            url = rng.choice(INPAGE)
        elif r < 0.45 and tg["recipe"]:
            p, _ = rng.choice(tg["recipe"])
            url = spell(rng, from_dir, p, form, style) + qf
        elif r < 0.6 and tg["dir"]:
            p, _ = rng.choice(tg["dir"])
            url = spell(rng, from_dir, p, form, style, is_dir=True) + qf
        elif r < 0.7 and tg["readme"]:
            p, _ = rng.choice(tg["readme"])
            url = spell(rng, from_dir, p, form, style) + qf
        elif tg["asset"] or tg["link_ok"]:
            p, _ = rng.choice(tg["asset"] + tg["link_ok"])
            url = spell(rng, from_dir, p, form, style) + qf
            image = allow_image and rng.random() < 0.5
        else:
            url = rng.choice(EXTERNALS)
        out.append(md_link(rng, url, image))
    return out


def gen_site(rng: random.Random, profile: str = "valid", size: str = "medium") -> Dict[str, Any]:
    size, _sep, opt = size.partition(":")
    M = rng.choice([1, 1, 2, 2, 3, 3, 4, 5, 6, 8, 10, 12])
    big_m = size == "bigM"
    if big_m:
        # recipes stating MORE than 10 servings need max_servings above the default: a small tree with M in 11..16
        size = "small"
        M = rng.choice([11, 12, 12, 13, 14, 16])
    max_depth = {"small": 1, "medium": rng.choice([1, 2, 2, 3]), "deep": 4}[size]
    fan = {"small": 2, "medium": rng.choice([2, 3, 4]), "deep": 2}[size]
    budget = [{"small": 4, "medium": 10, "deep": 8}[size], {"small": 3, "medium": 8, "deep": 8}[size]]
    if big_m:
        budget = [3, 2]
    if size == "medium" and M > 6:
        budget = [6, 5]
    src = D("src", gen_skeleton(rng, 0, max_depth, fan, budget))
    if opt:
        force_names(rng, src, opt)
    outside = D("outside", [F("secret.bin", data=b"\x00SECRET-MARKER-\xff" + bytes(rng.randrange(256) for _ in range(8))),
                            F("secret.md", text="# Outside secret for 2\n\nSECRET-MARKER-TEXT\n\n    1 secret\n"),
                            D("odir", [F("deep.txt", text="SECRET-MARKER-DEEP\n")])])
    siblings = [D(nm, [F("secret.bin", data=b"\x01SECRET-MARKER-SIBLING\xfe" + bytes(rng.randrange(256) for _ in range(6))),
                       D("deep", [F("s.txt", text="SECRET-MARKER-SIBLING-DEEP\n")])])
                for nm in SIBLING_NAMES]
    base = D("", [src, outside] + siblings)
    inp = rng.choice([["src"], ["src"], ["src"], ["srclink"], ["src", "..", "src"], ["outside", "..", "src", "."]])
    if inp == ["srclink"]:
        base["ch"].append(L("srclink", rng.choice(["src", "{BASE}/src", "./src/"])))

    tg = _targets(src)
    dirs = [(p, n) for p, n in tg["dir"]]
    # symbolic links that resolve to files inside the root (valid link targets)
    tg["link_ok"] = []
    if tg["asset"] and rng.random() < 0.6:
        for _ in range(rng.randrange(1, 3)):
            dp, dn = rng.choice(dirs)
            ap, _an = rng.choice(tg["asset"])
            nm = rng.choice(["lnk.png", "alias", "sym link.bin", "l#nk"])
            if any(c["name"] == nm for c in dn["ch"]):
                continue
            if rng.random() < 0.5:
                target = "/".join([".."] * len(dp) + list(ap)) or "."
            else:
                target = "{BASE}/src/" + "/".join(ap)
            dn["ch"].append(L(nm, target))
            tg["link_ok"].append((dp + (nm,), dn["ch"][-1]))
    # a symbolic link to a directory inside the root (listed as a category of its own; links THROUGH it resolve to the
    # real directory's pages)
    leafdirs = [(p, n) for p, n in dirs if p and not any(c["k"] == "d" for c in n["ch"])]
    if leafdirs and rng.random() < 0.25:
        tp, tn = rng.choice(leafdirs)
        cands = [(p, n) for p, n in dirs if p != tp]
        if cands:
            dp, dn = rng.choice(cands)
            nm = rng.choice(["dirlink", "also here", "Linked Dir"])
            if not any(c["name"] == nm for c in dn["ch"]):
                target = "/".join([".."] * len(dp) + list(tp))
                dn["ch"].append(L(nm, target))
    # decoys that must never be reached in the valid profile: links pointing outside, unreferenced
    if rng.random() < 0.4:
        dp, dn = rng.choice(dirs)
        if not any(c["name"] == "escape.bin" for c in dn["ch"]):
            dn["ch"].append(L("escape.bin", rng.choice(["{BASE}/outside/secret.bin",
                                                        "/".join([".."] * (len(dp) + 1)) + "/outside/secret.bin"])))

    # documents
    title_pool = rng.sample(TITLES, k=min(len(TITLES), 8))
    for dp, dn in dirs:
        dir_titles = [rng.choice(title_pool) for _ in dn["ch"]]
        twins = [(dp + (c["name"],)) for c in dn["ch"] if c.get("twin")]
        for c in dn["ch"]:
            if c["k"] == "d" and c["name"] == "img":
                twins += [(dp + ("img", g["name"])) for g in c["ch"] if g.get("twin")]
        for c, t in zip(dn["ch"], dir_titles):
            if c["k"] != "f" or "role" not in c:
                continue
            if c["role"] == "recipe":
                serv = rng.choice([None, None, 1, 2, 3, 4, 6, 12])
                if serv is not None:
                    serv = min(serv, M) if rng.random() < 0.9 else rng.randrange(1, M + 1)
                if big_m and rng.random() < 0.7:
                    serv = rng.randrange(11, M + 1)
                links = gen_links(rng, dp, tg, rng.choice([0, 0, 1, 1, 2, 3]))
                if "serves" in "/".join(dp + (c["name"],)) and tg["recipe"]:
                    # a page whose address contains "serves" without being below /serves<N>: links to other recipes
                    for _ in range(2):
                        rp, _rn = rng.choice(tg["recipe"])
                        links.append(md_link(rng, spell(rng, dp, rp, rng.choice(["rel", "abs"]), "plain")))
                    if rng.random() < 0.7:
                        serv = None
                if twins and rng.random() < 0.7:
                    # files that share a stem with a recipe / have a backslash in the name: linked and shown as images
                    for tp in rng.sample(twins, k=min(len(twins), 2)):
                        links.append(md_link(rng, spell(rng, dp, tp, rng.choice(["rel", "abs"]), rng.choice(["plain", "lower"])),
                                             rng.random() < 0.5))
                if rng.random() < 0.08:
                    t = ""
                c["text"] = recipe_text(rng, t, serv, links)
            elif c["role"] == "readme":
                links = gen_links(rng, dp, tg, rng.choice([0, 1, 1, 2]))
                if "serves" in "/".join(dp) and tg["recipe"]:
                    for _ in range(2):
                        rp, _rn = rng.choice(tg["recipe"])
                        links.append(md_link(rng, spell(rng, dp, rp, rng.choice(["rel", "abs"]), "plain")))
                c["text"] = readme_text(rng, t if rng.random() < 0.8 else rng.choice(TITLES), links)

    site = {"M": M, "input": inp, "base": base, "profile": profile}
    if profile != "valid":
        plant_fault(rng, site, profile, tg, dirs)
    for _p, n in walk(base):
        n.pop("role", None)
        n.pop("twin", None)
    return site


FAULTS = ["multiple-readme", "readme-missing-title", "readme-malformed-title", "recipe-missing-title", "compile",
          "max-servings", "link-outside-dots", "link-outside-abs-symlink", "link-outside-rel-symlink",
          "link-outside-dir-symlink", "link-missing", "link-outside-encoded",
          "title-with-scaled-value", "multiple-readme-same-name", "empty-recipe-block", "link-sibling-rel", "link-sibling-abs", "link-sibling-encoded", "link-sibling-symlink", "link-sibling-dir-symlink",
          "link-casetwin-rel", "link-casetwin-symlink"]


SIBLING_NAMES = ["src-private", "src2", "src.bak", "src copy", "srcé", "Src", "SRC", "sRc"]


def plant_fault(rng: random.Random, site: Dict[str, Any], profile: str, tg: Dict[str, Any], dirs: List[Any]) -> None:
    M = site["M"]
    kind = profile if profile in FAULTS or profile in ("f12", "f13", "f15") else rng.choice(FAULTS)
    site["fault"] = kind
    dp, dn = rng.choice(dirs)

    def add_recipe(text: str, name: Optional[str] = None) -> None:
        nm = name or ("fault" + rng.choice(MD_EXTS))
        dn["ch"] = [c for c in dn["ch"] if c["name"] != nm]
        dn["ch"].insert(rng.randrange(len(dn["ch"]) + 1), {"k": "f", "name": nm, "text": text})

    def add_carrier(url: str, image: bool = False) -> None:
        """a recipe or the directory's readme carrying the offending link"""
        ln = md_link(rng, url, image)
        readmes = [c for c in dn["ch"] if c["k"] == "f" and is_readme_name(c["name"])]
        if readmes and rng.random() < 0.3:
            readmes[0]["text"] = readmes[0]["text"] + "\n" + ln + "\n"
        else:
            serv = rng.choice([None, min(2, M)])
            add_recipe(recipe_text(rng, "Carrier", serv, [ln]))

    ups = "/".join([".."] * (len(dp) + 1))
    if kind == "multiple-readme":
        dn["ch"] = [c for c in dn["ch"] if not is_readme_name(c["name"])]
        for nm in rng.sample(README_NAMES, 2):
            dn["ch"].insert(rng.randrange(len(dn["ch"]) + 1), F(nm, text="# Readme " + nm + "\n"))
    elif kind in ("readme-missing-title", "readme-malformed-title"):
        dn["ch"] = [c for c in dn["ch"] if not is_readme_name(c["name"])]
        dn["ch"].insert(rng.randrange(len(dn["ch"]) + 1), F(rng.choice(README_NAMES), text=readme_text(rng, "T", [], kind)))
    elif kind == "recipe-missing-title":
        add_recipe(rng.choice(["No heading here\n", "## Only level two\n", "# 100% rye\n", "# A <b>b</b> for 2\n", "",
                               "# Pancakes {3} ways for 2\n\nText\n", "# Mix {2} and match\n\n    2 eggs\n",
                               "# Pancakes {3} ways for 2\n\nText\n"]))
    elif kind == "multiple-readme-same-name":
        # two readme files whose names are equal ignoring case, with DIFFERENT titles
        dn["ch"] = [c for c in dn["ch"] if not is_readme_name(c["name"])]
        a, b = rng.choice([("README.md", "readme.md"), ("Index.Md", "INDEX.MD"), ("ReadMe.md", "README.MD"), ("index.md", "Index.md")])
        dn["ch"].insert(rng.randrange(len(dn["ch"]) + 1), F(a, text="# Alpha title\n\nfirst\n"))
        dn["ch"].insert(rng.randrange(len(dn["ch"]) + 1), F(b, text="# Zulu title\n\nsecond\n"))
    elif kind == "empty-recipe-block":
        # an empty / blank ```recipe block in the same recipe as a non-empty block
        add_recipe(rng.choice(["# T for 2\n\n    2 eggs\n\n```recipe\n```\n", "# T for 2\n\n    2 eggs\n\n```recipe\n\n   \n```\n\nMore {3}\n",
                               "# T\n\n```recipe\n```\n\nx\n\n```recipe\n1 egg\n```\n"]))
    elif kind == "title-with-scaled-value":
        # a first heading with a {..} value that is NOT at its start: no title can be taken from it (rejected the same
        # way by every process)
        add_recipe(rng.choice(["# Pancakes {3} ways for 2\n\nText {2}\n\n    2 eggs\n", "# Mix {2} and match\n\n    2 eggs\n",
                               "# Feeds about {4}\n\nText\n", "# Burgers: {8} small ones for 4\n\n    8 buns\n"]))
    elif kind == "compile":
        add_recipe(recipe_text(rng, "Broken", None, [], "compile"))
    elif kind == "max-servings":
        add_recipe(recipe_text(rng, "Big", M + rng.choice([1, 1, 2, 10]), []))
    elif kind == "link-outside-dots":
        add_carrier(rng.choice([ups + "/outside/secret.bin", ups + "/outside/odir/deep.txt", ups + "/outside/",
                                ups, ups + "/nonexistent", "/../outside/secret.bin", "/.." ]))
    elif kind == "link-outside-abs-symlink":
        dn["ch"].append(L("evil.png", "{BASE}/outside/secret.bin"))
        add_carrier("evil.png", rng.random() < 0.5)
    elif kind == "link-outside-rel-symlink":
        dn["ch"].append(L("evil2.png", ups + "/outside/secret.bin"))
        add_carrier(rng.choice(["evil2.png", "./evil2.png", "/" + "/".join(quote(c, safe="") for c in dp + ("evil2.png",))]))
    elif kind == "link-outside-dir-symlink":
        dn["ch"].append(L("odirlink", "{BASE}/outside/odir"))
        add_carrier("odirlink/deep.txt")
        site["note"] = "the linked directory is also listed as a (legitimately empty) category"
    elif kind == "link-missing":
        add_carrier(rng.choice(["nope.png", "missing/deeper.md", "/nope", "a%2Fb.png", "%zz", "nope.md?x#y"]))
    elif kind == "link-outside-encoded":
        add_carrier(rng.choice(["%2E%2E/" * (len(dp) + 1) + "outside/secret.bin", "%2e%2e/" * (len(dp) + 1) + "outside/secret.bin",
                                "..%2F" * (len(dp) + 1) + "outside%2Fsecret.bin"]))
    elif kind.startswith("link-casetwin"):
        # the outside directory differs from the source root ONLY in letter case (src / Src)
        sib = rng.choice(["Src", "SRC", "sRc"])
        tail = rng.choice(["secret.bin", "deep/s.txt"])
        if kind == "link-casetwin-rel":
            add_carrier(rng.choice([ups + "/" + sib + "/" + tail, "/../" + sib + "/" + tail]), rng.random() < 0.4)
        else:
            dn["ch"].append(L("twin peek.bin", rng.choice(["{BASE}/" + sib + "/secret.bin", ups + "/" + sib + "/secret.bin"])))
            add_carrier("twin%20peek.bin", rng.random() < 0.4)
    elif kind.startswith("link-sibling"):
        # the target lives in a SIBLING of the source root whose name starts with the root's name (src-private, src2 ...):
        # outside by path components, "inside" for a string-prefix comparison
        sib = rng.choice(SIBLING_NAMES)
        tail = rng.choice(["secret.bin", "deep/s.txt"])
        if kind == "link-sibling-rel":
            add_carrier(ups + "/" + quote(sib, safe="") + "/" + tail, rng.random() < 0.4)
        elif kind == "link-sibling-abs":
            add_carrier("/../" + quote(sib, safe="") + "/" + tail)
        elif kind == "link-sibling-encoded":
            enc = "".join("%%%02X" % b for b in sib.encode("utf-8"))
            add_carrier(rng.choice(["%2E%2E/" * (len(dp) + 1) + enc + "/" + tail,
                                    "..%2F" * (len(dp) + 1) + enc + "%2F" + tail.replace("/", "%2f")]))
        elif kind == "link-sibling-symlink":
            dn["ch"].append(L("peek.bin", rng.choice(["{BASE}/" + sib + "/secret.bin", ups + "/" + sib + "/secret.bin"])))
            add_carrier(rng.choice(["peek.bin", "./peek.bin?x=1"]), rng.random() < 0.4)
        else:
            dn["ch"].append(L("peekdir", rng.choice(["{BASE}/" + sib, ups + "/" + sib])))
            add_carrier("peekdir/" + tail)
            site["note"] = "the linked directory is also listed as a category"
    elif kind == "broken-md-symlink":
        dn["ch"].append(L("dangling.md", "no-such-target.md"))
    elif kind == "f12":
        st = rng.choice(["a", "Same stem", "q?r"])
        scal = rng.random() < 0.5
        dn["ch"] = [c for c in dn["ch"] if stem_of(c["name"]) != st]
        add_recipe(recipe_text(rng, "First", min(2, M) if scal else None, []), st + ".md")
        add_recipe(recipe_text(rng, "Second", 1 if scal else None, []), st + ".MD")
    elif kind == "f13":
        add_carrier(rng.choice(["%00", "a%00b.png", "x/%00/y", "/%00"]))
    elif kind == "f15":
        dn["ch"].append(L("loop1", "loop2"))
        dn["ch"].append(L("loop2", "loop1"))
        add_carrier(rng.choice(["loop1", "loop2/x", "loop1?q"]))
