"""Seeded generator of abstract recipe descriptions and a printer with spelling choices.

Two layers:

* the *abstract program* (JSON-able): blocks -> statements -> expressions, names as
  lists of parts (str | number-json), amounts with every field the AST carries;
* `spell(program, rng)` prints it as recipe source text (one text per block) under
  random spelling choices (quote style per chunk, whitespace, shorthand vs nested,
  trailing commas, fraction layout, unit case) and records the source offsets that
  compile errors refer to.

The abstract program is what the Gallina model `compile_ast` consumes; the text is what
`recipe_grid.compiler.compile` consumes.  The printer's contract (checked by the C06
correspondence against the real parser): parsing the text yields exactly the abstract
program's values.

Abstract JSON shapes
  name    : [part, ...]      part = str | {"int":..} | {"frac":[..]} | {"float":..}   (normalised: no "", no adjacent strs)
  amount  : None
          | {"q": [num, unit|None, spacing, prep], "explicit": bool, "numtxt": str}
          | {"p": [num|None, percentage, wording|None, prep], "numtxt": str|None}
  expr    : {"step": name, "ins": [expr, ...], "short": bool}      short: printed as  x, name  when it has one input
          | {"ref": name, "amt": amount, "off": int}                off filled by the printer
  stmt    : {"outs": [name, ...], "named": bool, "expr": expr, "out_offs": [int, ...]}
  program : [[stmt, ...], ...]   (blocks)
"""
from __future__ import annotations

import random
import re
from fractions import Fraction
from typing import Any, Dict, List, Optional, Tuple

from .. import coqio as c

WORDS = ["spam", "eggs", "ham", "sauce", "cheese", "onion", "stock", "rice", "mix", "dough", "Red Onion", "veg",
         # words that merely BEGIN with a remainder word / preposition / unit word (legal naked names)
         "rested dough", "restaurant mix", "Remainders", "often", "gnocchi", "canned beans", "leftovers", "passata",
         # cased letters outside ASCII (names are matched ignoring case for ALL letters)
         "crème pâtissière", "jalapeño salsa", "борщ", "μέλι"]
STEPS = ["chop", "fry", "boil", "mix", "bake", "stir well", "drain", "grate"]
REMAINDERS = ["remaining", "remainder", "rest", "left over", "Remaining", "REST", "left  over", "leftover"]
FREE_UNITS = ["handful", "large handfuls", "big sprigs", "Dash"]
ODD_TEXT = ["a,b", "x=y", "it's", 'say "hi"', "50/50", "(big)", "tab\there", "é ü 中", "a:b", "back\\slash", "<b>&amp;", "100% rye",
            "#1 mix", "2 eggs", "of the best", "rest day", "g force", "multi\nline"]
_NAKED = re.compile(r"[^\"',:=/(){}\s]([^\"',:=/(){}\n\r]*[^\"',:=/(){}\s])?")


# unit names as the documentation lists them (its list is generated from the unit table, so this is a SNAPSHOT of the
# pinned commit's table, not read from units.py at run time: a name that silently drops out of the live table is still
# generated, and then no longer compiles to what the reference prescribes)
DOCUMENTED_UNITS = ["g", "gram", "grams", "kg", "kilo", "kilos", "kilogram", "kilograms", "lb", "lbs", "pound",
                    "pounds", "oz", "ozs", "ounce", "ounces", "l", "litre", "ml", "mill", "mills",
                    "milliliter", "milliliters", "tsp", "tsps", "teaspoons", "teaspoon", "tea spoon",
                    "tea spoons", "tbsp", "tbsps", "tablespoon", "tablespoons", "table spoon", "table spoons",
                    "cup", "cups", "pint", "pints", "clove", "cloves", "bulb", "bulbs", "can", "cans", "tin",
                    "tins", "pinch", "pinches", "knob", "knobs", "packet", "packets", "pack", "packs", "box",
                    "boxes", "boxen", "bag", "bags", "sack", "sacks", "sachet", "sachets", "rasher", "rashers",
                    "strip", "strips"]


def unit_names() -> List[str]:
    from recipe_grid.units import UNIT_SYSTEM
    live = list(UNIT_SYSTEM.iter_names())
    return live + [u for u in DOCUMENTED_UNITS if u not in live]


def dangerous_first_words() -> set:
    ws = set()
    for n in unit_names():
        ws.add(n.split()[0].lower())
    ws |= {"of", "remaining", "remainder", "rest", "left", "leftover"}
    return ws


# --------------------------------------------------------------------------- numbers

def gen_number(rng: random.Random) -> Tuple[Any, str]:
    """(value, source text).  Values have at most 15 significant digits."""
    k = rng.random()
    if k < 0.45:
        v = rng.choice([1, 2, 3, 4, 5, 10, 12, 100, 250, 500, 1000, rng.randrange(0, 5000)])
        txt = str(v)
        if rng.random() < 0.05:
            txt = "0" + txt
        return v, txt
    if k < 0.7:
        ip = rng.choice([0, 0, 1, 2, 12, 250])
        fp = rng.choice(["5", "25", "75", "1", "125", "3", "05", "0", ""])
        if k > 0.63:
            # tiny amounts: an absolute tolerance in quantity comparison would confuse them with each other / zero
            ip, fp = 0, rng.choice(["0005", "0004", "001", "0", "00049", "0002"])
        txt = f"{ip}.{fp}"
        return float(txt), txt
    # fraction, optionally mixed, random layout
    d = rng.choice([2, 3, 4, 5, 8, 10, 16, 100, 7])
    n = rng.randrange(1, 2 * d + 1)
    i = rng.choice([None, None, 1, 2, 10])
    sp = lambda: rng.choice(["", "", " ", "\t", "  "])
    if i is None:
        txt = f"{n}/{sp()}{d}"
        return Fraction(n, d), txt
    txt = f"{i}{rng.choice([' ', '  ', chr(9)])}{n}{sp()}/{sp()}{d}"
    return i + Fraction(n, d), txt


# --------------------------------------------------------------------------- names

def norm_parts(parts: List[Any]) -> List[Any]:
    out: List[Any] = []
    for p in parts:
        if isinstance(p, str):
            if out and isinstance(out[-1], str):
                out[-1] += p
            else:
                out.append(p)
        else:
            out.append(p)
    return [p for p in out if p != ""]


def gen_name_parts(rng: random.Random, pool: List[List[Any]], fresh: float = 0.3) -> List[Any]:
    """A name: usually one from the pool (possibly in another case / with stray whitespace
    that normalisation removes), sometimes new."""
    if pool and rng.random() > fresh:
        base = rng.choice(pool)
        parts = [p if not isinstance(p, str) else (
            p.upper() if rng.random() < 0.1 else p.capitalize() if rng.random() < 0.1 else p) for p in base]
        strs = [i for i, p in enumerate(parts) if isinstance(p, str)]
        if len(strs) >= 2 and rng.random() < 0.25:
            # the same name with only a LATER text part in another case (normalisation lower-cases every part)
            i = rng.choice(strs[1:])
            parts[i] = parts[i].upper() if parts[i] != parts[i].upper() else parts[i].lower()
        if rng.random() < 0.06:
            # a DIFFERENT name that is equal only under full case FOLDING (str.casefold), not under str.lower
            for i in strs:
                t = parts[i]
                for a, b in (("ss", "\u00df"), ("fi", "\ufb01"), ("s", "\u017f")):
                    if a in t and not t.startswith(a):
                        parts[i] = t.replace(a, b, 1)
                        break
                if parts[i] != t:
                    break
        if rng.random() < 0.12:
            # a DIFFERENT name that reads the same: scaled number <-> the same digits as plain text
            from recipe_grid.number_formatting import format_number
            alt: List[Any] = []
            changed = False
            for p in parts:
                if not isinstance(p, str) and not changed:
                    alt.append(format_number(c.num_unjson(p)))
                    changed = True
                else:
                    alt.append(p)
            if not changed:
                import re as _re
                for i, p in enumerate(alt):
                    m = _re.search(r"[0-9]+", p) if isinstance(p, str) else None
                    if m:
                        alt[i:i + 1] = [p[:m.start()], c.num_json(int(m.group(0))), p[m.end():]]
                        break
            parts = norm_parts(alt)
        return parts
    k = rng.random()
    if k < 0.6:
        return [rng.choice(WORDS)]
    if k < 0.75:
        return [rng.choice(ODD_TEXT)]
    if k < 0.9:
        v, _ = gen_number(rng)
        return norm_parts([rng.choice(WORDS) + " ", c.num_json(v), rng.choice(["", " pieces", "cm"])])
    return [rng.choice(WORDS) + " " + rng.choice(WORDS)]


def _quote(s: str, q: str, rng: random.Random) -> str:
    out = [q]
    for ch in s:
        if ch == q or ch == "\\":
            out.append("\\" + ch)
        elif ch == "\n":
            out.append("\\n")
        elif ch == "\r":
            out.append("\\r")
        elif ch in "\"'" and rng.random() < 0.2:
            out.append("\\" + ch)
        elif ch == "\t" and rng.random() < 0.5:
            out.append("\\t")
        else:
            out.append(ch)
    out.append(q)
    return "".join(out)


def _brace_text(s: str, after_number: bool, rng: random.Random) -> str:
    out = []
    for i, ch in enumerate(s):
        if ch == "\n":
            out.append("\\n")
        elif ch == "\r":
            out.append("\\r")
        elif ch in "0123456789{}\\":
            out.append("\\" + ch)
        elif i == 0 and after_number and ch in ". /\t":
            out.append("\\" + ch)
        elif not ch.isalpha() and ch not in "abfnrtv" and rng.random() < 0.1:
            out.append("\\" + ch)
        else:
            out.append(ch)
    return "".join(out)


def _num_text(j: Any, rng: random.Random) -> str:
    v = c.num_unjson(j)
    if isinstance(v, int):
        return str(v)
    if isinstance(v, float):
        r = repr(v)
        if "e" in r or "inf" in r or "nan" in r:
            raise ValueError("unprintable float")
        return r
    if v.denominator == 1:
        return f"{v.numerator}/1"
    ip, rem = divmod(v.numerator, v.denominator)
    if ip and rng.random() < 0.5:
        return f"{ip} {rem}/{v.denominator}"
    return f"{v.numerator}/{v.denominator}"


def spell_name(parts: List[Any], rng: random.Random, canonical: bool = False, danger: Optional[set] = None) -> str:
    """Spell a normalised name. First chunk is written naked only when harmless in every position."""
    danger = danger if danger is not None else dangerous_first_words()
    out: List[str] = []
    first = True
    prev_naked = False
    i = 0
    if not canonical and rng.random() < 0.03:
        # an EMPTY brace group in front (the '{}' variant of the documented ''{8} trick): contributes nothing to the name
        out.append("{}")
        first = False
    while i < len(parts):
        p = parts[i]
        if not isinstance(p, str):
            # number(s) and possibly following text inside one brace group
            body = _num_text(p, rng)
            i += 1
            if i < len(parts) and isinstance(parts[i], str) and (canonical or rng.random() < 0.5):
                body += _brace_text(parts[i], True, rng)
                i += 1
            out.append("{" + body + "}")
            first = False
            prev_naked = False
            continue
        text = p
        i += 1
        # split into chunks
        while text:
            if canonical or rng.random() < 0.6 or len(text) == 1:
                chunk, text = text, ""
            else:
                k = rng.randrange(1, len(text))
                chunk, text = text[:k], text[k:]
            # leading horizontal whitespace may be written raw between segments
            lead = ""
            if not first and not canonical:
                m = re.match(r"[ \t]+", chunk)
                if m and rng.random() < 0.7 and m.end() < len(chunk):
                    lead, chunk = m.group(0), chunk[m.end():]
            style = rng.random()
            fw = re.match(r"[^\W\d_]*", chunk).group(0).casefold()   # (?i) folds U+017F / U+212A into s / k
            naked_ok = (not prev_naked and _NAKED.fullmatch(chunk) is not None and "\\" not in chunk
                        and (not first or (chunk[0].isalpha() and fw not in danger and chunk[0].isascii())))
            # a naked chunk directly after another segment needs separating whitespace only when
            # the previous segment is naked too (then it is the same string anyway)
            prev_naked = False
            if naked_ok and (canonical or style < 0.6):
                seg = chunk
                prev_naked = True
            elif style < 0.75 and i >= len(parts) and not text and False:
                seg = chunk
            elif style < 0.85 or canonical:
                seg = _quote(chunk, rng.choice("\"'") if not canonical else '"', rng)
            else:
                seg = "{" + _brace_text(chunk, False, rng) + "}"
            out.append(lead + seg)
            first = False
    return "".join(out)


# --------------------------------------------------------------------------- amounts

def gen_amount(rng: random.Random, is_ref: bool, units: List[str]) -> Any:
    k = rng.random()
    if k < (0.35 if is_ref else 0.3):
        return None
    v, txt = gen_number(rng)
    if (not is_ref) or k < 0.6:
        # quantity
        form = rng.random()
        if form < 0.35:
            explicit = rng.random() < 0.25
            # an explicit unit-less quantity may carry a preposition ("{2} of the eggs"); an implicit one cannot
            # (it would read as a proportion)
            prep = rng.choice(["", " of", " of the", "\tof"]) if explicit else ""
            return {"q": [c.num_json(v), None, "", prep], "explicit": explicit, "numtxt": txt}
        if form < 0.8:
            u = rng.choice(units)
            u = re.sub(r" ", lambda m: rng.choice([" ", "  ", "\t"]), u)
            u = u.upper() if rng.random() < 0.1 else u.capitalize() if rng.random() < 0.1 else u
            sp = rng.choice(["", "", " ", "\t"])
            prep = rng.choice(["", "", " of", " of the", "  OF  the", "\tof"])
            return {"q": [c.num_json(v), u, sp, prep], "explicit": False, "numtxt": txt}
        u = rng.choice(FREE_UNITS)
        sp = rng.choice(["", " ", "  "])
        if sp == "" and u[0].isdigit():
            sp = " "
        prep = rng.choice(["", " of", " of the"])
        return {"q": [c.num_json(v), u, sp, prep], "explicit": True, "numtxt": txt}
    # proportion (references only -- on an ingredient it is the documented compile error)
    form = rng.random()
    if form < 0.3:
        w = rng.choice(REMAINDERS[:7])
        prep = rng.choice(["", " of", " of the", "  of"])
        return {"p": [None, False, w, prep], "numtxt": None}
    if form < 0.55:
        prep = rng.choice([" of", " of the", "\tof  the"])
        return {"p": [c.num_json(v), False, None, prep], "numtxt": txt}
    if form < 0.8:
        prep = rng.choice(["", " "]) + "%" + rng.choice(["", " of", " of the"])
        if isinstance(v, int):
            pv: Any = v / 100
        elif isinstance(v, float):
            pv = v / 100
        else:
            pv = v / 100
        return {"p": [c.num_json(pv), True, None, prep], "numtxt": txt}
    prep = rng.choice(["", " ", "  "]) + "*"
    return {"p": [c.num_json(v), False, None, prep], "numtxt": txt}


def spell_unit_pieces(u: str, rng: random.Random) -> str:
    """A free-form unit written as SEVERAL juxtaposed string tokens (quoted first piece, then quoted or naked pieces):
    the compiled unit is their concatenation."""
    cuts = sorted(set(rng.randrange(1, len(u)) for _ in range(rng.randrange(1, 3)))) if len(u) > 1 else []
    pieces = [u[i:j] for i, j in zip([0] + cuts, cuts + [len(u)])]
    out, prev_naked = [], True      # the first piece is always quoted (a naked prefix could be a known unit)
    for pc in pieces:
        if not prev_naked and _NAKED.fullmatch(pc) and "\\" not in pc and rng.random() < 0.5:
            out.append(pc)
            prev_naked = True
        else:
            out.append(_quote(pc, rng.choice("\"'"), rng))
            prev_naked = False
    return "".join(out)


def spell_amount(a: Any, rng: random.Random) -> str:
    if "q" in a:
        v, u, sp, prep = a["q"]
        if a["explicit"]:
            inner = rng.choice(["", " "]) + a["numtxt"]
            if u is not None and len(u) > 1 and rng.random() < 0.25:
                inner += sp + spell_unit_pieces(u, rng)
            elif u is not None:
                inner += sp + (u if _NAKED.fullmatch(u) and rng.random() < 0.7 else _quote(u, '"', rng))
            inner += rng.choice(["", " "])
            return "{" + inner + "}" + prep
        return a["numtxt"] + (sp + u if u is not None else "") + prep
    v, pc, w, prep = a["p"]
    if v is None:
        return w + prep
    return a["numtxt"] + prep


# --------------------------------------------------------------------------- programs

class ProgramGen:
    def __init__(self, rng: random.Random, max_blocks: int = 3, max_stmts: int = 6, max_depth: int = 4,
                 error_rate: float = 0.08):
        self.rng = rng
        self.units = unit_names()
        self.max_blocks, self.max_stmts, self.max_depth, self.error_rate = max_blocks, max_stmts, max_depth, error_rate
        self.defined: Dict[str, Tuple[List[Any], Optional[Any]]] = {}   # normalised text key -> (parts, inferred qty)
        self.pool: List[List[Any]] = []

    @staticmethod
    def key(parts: List[Any]) -> str:
        from recipe_grid.scaled_value_string import ScaledValueString as SVS
        s = SVS([p if isinstance(p, str) else c.num_unjson(p) for p in parts]).strip().lower()
        return repr(s._string)

    def name(self, fresh: float = 0.3) -> List[Any]:
        n = norm_parts(gen_name_parts(self.rng, self.pool, fresh))
        if not n or not isinstance(n[0], str):
            n = norm_parts(["x "] + n)
        if self.rng.random() < 0.5 and n not in self.pool:
            self.pool.append(n)
        return n

    def convert_quantity(self, q: Any) -> Optional[Any]:
        """The same physical amount written in another unit of the kind (exact factors only), random letter case."""
        from recipe_grid.units import UNIT_SYSTEM
        v, u, sp, prep = q["q"]
        if u is None or q["explicit"]:
            return None
        try:
            lu = " ".join(u.lower().split())
            others = [(s_, n) for s_, n in UNIT_SYSTEM.iter_conversions_from(lu) if not isinstance(s_, float)]
        except KeyError:
            return None
        if not others:
            return None
        scale, name = self.rng.choice(others)
        aliases = [n for n in UNIT_SYSTEM.iter_names() if UNIT_SYSTEM._name_to_unit_set[n].normalise_unit_name(n) == name
                   and n in UNIT_SYSTEM._name_to_unit_set[name]._name_to_node]
        w = self.rng.choice(aliases or [name])
        val = c.num_unjson(v)
        if isinstance(val, float):
            return None
        nv = val * scale
        if isinstance(nv, Fraction) and nv.denominator == 1:
            nv = int(nv)
        if isinstance(nv, int):
            txt = str(nv)
        else:
            if nv.denominator > 10 ** 6 or nv.numerator > 10 ** 12:
                return None
            ip, rem = divmod(nv.numerator, nv.denominator)
            txt = f"{ip} {rem}/{nv.denominator}" if ip and self.rng.random() < 0.5 else f"{nv.numerator}/{nv.denominator}"
        w = w.upper() if self.rng.random() < 0.3 else w.capitalize() if self.rng.random() < 0.3 else w
        return {"q": [c.num_json(nv), w, self.rng.choice(["", " "]), self.rng.choice(["", " of", " of the"])],
                "explicit": False, "numtxt": txt}

    def expr(self, depth: int) -> Any:
        rng = self.rng
        if depth >= self.max_depth or rng.random() < 0.45:
            nm = self.name()
            is_ref = self.key(nm) in self.defined
            amt = gen_amount(rng, is_ref, self.units)
            if is_ref and amt is not None and "q" in amt and rng.random() < 0.5:
                # make the quantity equal (or nearly) to the definition's inferred quantity: the fold decision
                q = self.defined[self.key(nm)][1]
                if q is not None:
                    amt = {"q": list(q["q"]), "explicit": q["explicit"], "numtxt": q["numtxt"]}
                    conv = self.convert_quantity(q) if rng.random() < 0.5 else None
                    if conv is not None:
                        amt = conv
            if not is_ref and rng.random() < self.error_rate / 8:
                amt = gen_amount(rng, True, self.units)      # may be a proportion: the documented compile error
            return {"ref": nm, "amt": amt, "off": -1}
        n = rng.choice([1, 1, 2, 2, 3, 4])
        ins = [self.expr(depth + 1) for _ in range(n)]
        return {"step": norm_parts([rng.choice(STEPS)] if rng.random() < 0.8 else gen_name_parts(rng, [], 1.0)) or ["do"],
                "ins": ins, "short": n == 1 and rng.random() < 0.5}

    def infer(self, e: Any) -> Tuple[Optional[List[Any]], Optional[Any]]:
        """(inferred output name, quantity the definition will have once earlier definitions are folded in)."""
        while "step" in e and len(e["ins"]) == 1:
            e = e["ins"][0]
        if "ref" in e and self.key(e["ref"]) not in self._defined_before:
            a = e["amt"]
            return e["ref"], (a if a is not None and "q" in a else None)
        if "ref" in e and self.key(e["ref"]) in self._defined_before:
            # a chain: the quantity becomes inferable only after the referenced definition is folded in
            a = e["amt"]
            whole = a is None or ("p" in a and (a["p"][0] is None or c.num_unjson(a["p"][0]) == 1))
            if whole:
                return None, self.defined[self.key(e["ref"])][1]
            if a is not None and "q" in a:
                return None, a
        return None, None

    def stmt(self) -> Any:
        rng = self.rng
        self._defined_before = set(self.defined)
        e = self.expr(0)
        k = rng.random()
        outs: List[List[Any]] = []
        named = False
        if k < 0.45:
            n = 1 if rng.random() < 0.8 else rng.choice([2, 3])
            for _ in range(n):
                nm = self.name(0.7)
                tries = 0
                while (self.key(nm) in self.defined or any(self.key(nm) == self.key(o) for o in outs)) \
                        and rng.random() > self.error_rate and tries < 20:
                    nm = self.name(1.0)
                    tries += 1
                outs.append(nm)
            if rng.random() < 0.06:
                # an output name written with blanks around it (inside quotes / braces): matched ignoring them, but KEPT
                # as written in the compiled sub recipe's output names
                o = list(rng.choice(outs))
                if isinstance(o[0], str) and isinstance(o[-1], str):
                    o[0] = rng.choice([" ", "  ", "\t"]) + o[0]
                    o[-1] = o[-1] + rng.choice([" ", "\t", " \t "])
                    outs[[self.key(x) for x in outs].index(self.key(o))] = o
            if rng.random() < 0.04 and isinstance(outs[0][0], str) and outs[0][0].lower() != outs[0][0].upper():
                # the same name twice in ONE statement, differing only in letter case / surrounding blanks:
                # must be rejected as a redefinition (names are unique ignoring case)
                v = [p.upper() if isinstance(p, str) else p for p in outs[0]]
                if v == outs[0]:
                    v = [p.lower() if isinstance(p, str) else p for p in outs[0]]
                outs.append(v)
            elif rng.random() < 0.025:
                # ... or differing only in the case of text that FOLLOWS an interpolated number
                v0, _ = gen_number(rng)
                w = rng.choice(["loaves", "Pieces", "cm thick", "Big Pots"])
                outs[0] = norm_parts([rng.choice(WORDS[:10]) + " ", c.num_json(v0), " " + w])
                if self.key(outs[0]) not in self.defined:
                    outs.insert(1, outs[0][:2] + [outs[0][2].swapcase()])
            named = rng.random() < 0.4
        inferred, q = self.infer(e)
        if outs:
            for o in outs:
                self.defined.setdefault(self.key(o), (o, q if len(outs) == 1 else None))
                if o not in self.pool:
                    self.pool.append(o)
        elif inferred is not None:
            self.defined.setdefault(self.key(inferred), (inferred, q))
            if inferred not in self.pool:
                self.pool.append(inferred)
        return {"outs": outs, "named": named, "expr": e, "out_offs": []}

    def program(self) -> List[List[Any]]:
        rng = self.rng
        nb = rng.choice([1, 1, 1, 2, 2, 3][: 2 * self.max_blocks]) if self.max_blocks > 1 else 1
        return [[self.stmt() for _ in range(rng.randrange(1, self.max_stmts + 1))] for _ in range(nb)]


# --------------------------------------------------------------------------- printer

class Printer:
    def __init__(self, rng: random.Random, canonical: bool = False):
        self.rng, self.canonical = rng, canonical
        self.danger = dangerous_first_words()
        self.buf: List[str] = []
        self.pos = 0

    def w(self, s: str) -> None:
        self.buf.append(s)
        self.pos += len(s)

    def hsp(self, must: bool = False) -> str:
        if self.canonical:
            return " " if must else ""
        return self.rng.choice([" ", " ", "  ", "\t"] if must else ["", "", " ", " ", "\t"])

    def sp(self) -> str:
        if self.canonical:
            return ""
        return self.rng.choice(["", "", " ", "\n", "\n    ", " \n\t"])

    def name(self, parts: List[Any]) -> None:
        self.w(spell_name(parts, self.rng, self.canonical, self.danger))

    def expr(self, e: Any, top: bool) -> None:
        rng = self.rng
        if "ref" in e:
            e["off"] = self.pos
            if e["amt"] is not None:
                self.w(spell_amount(e["amt"], rng))
                nxt = spell_name(e["ref"], rng, self.canonical, self.danger)
                # word characters must not run into the amount's last word
                prev = self.buf[-1][-1:]
                need = (prev.isalnum() or prev == "_") and (nxt[0].isalnum() or nxt[0] == "_")
                if prev.isdigit() and nxt[0] in "./%*":
                    need = True
                self.w(self.hsp(must=need))
                self.w(nxt)
            else:
                self.name(e["ref"])
            return
        if e["short"] and len(e["ins"]) == 1 and not self.canonical:
            # left-to-right shorthand; needs parentheses unless at statement level
            if not top:
                self.w("(" + self.sp())
            self.expr(e["ins"][0], top)
            self.w(self.hsp() + "," + self.hsp())
            self.name(e["step"])
            if not top:
                self.w(self.sp() + ")")
            return
        self.name(e["step"])
        self.w(self.hsp() + "(" + self.sp())
        for k, i in enumerate(e["ins"]):
            if k:
                self.w(self.sp() + "," + self.sp())
            if not self.canonical and rng.random() < 0.07:
                self.w("(" + self.sp())
                self.expr(i, True)
                self.w(self.sp() + ")")
            else:
                self.expr(i, False)
        if not self.canonical and rng.random() < 0.2:
            self.w(self.sp() + ",")
        self.w(self.sp() + ")")

    def stmt(self, s: Any) -> None:
        s["out_offs"] = []
        if s["outs"]:
            for k, o in enumerate(s["outs"]):
                if k:
                    self.w(self.hsp() + "," + self.hsp())
                s["out_offs"].append(self.pos)
                self.name(o)
            self.w(self.hsp() + (":=" if s["named"] else "=") + self.hsp())
        self.expr(s["expr"], True)

    def block(self, stmts: List[Any]) -> str:
        self.buf, self.pos = [], 0
        if not self.canonical:
            self.w(self.rng.choice(["", "", "\n", "  \n", "\n\n"]))
        for k, s in enumerate(stmts):
            self.stmt(s)
            last = k == len(stmts) - 1
            if self.canonical:
                self.w("\n")
            elif last:
                self.w(self.rng.choice(["", "\n", " \n", "\n\n  ", " "]))
            else:
                self.w(self.rng.choice(["\n", "\n", " \n", "\n\n", "\r\n", "\n  \n"]))
        return "".join(self.buf)


def spell(program: List[List[Any]], rng: random.Random, canonical: bool = False) -> List[str]:
    p = Printer(rng, canonical)
    texts: List[str] = []
    for i, b in enumerate(program):
        same = [j for j in range(i) if _same_block(program[j], b)]
        if same and rng.random() < 0.5:
            # an equal earlier block: write the very same text again (offsets are then the same too)
            import copy
            program[i] = copy.deepcopy(program[same[0]])
            texts.append(texts[same[0]])
        else:
            texts.append(p.block(b))
    return texts


def _strip_offs(x: Any) -> Any:
    if isinstance(x, dict):
        return {k: _strip_offs(v) for k, v in x.items() if k not in ("off", "out_offs")}
    if isinstance(x, list):
        return [_strip_offs(v) for v in x]
    return x


def _same_block(a: Any, b: Any) -> bool:
    return _strip_offs(a) == _strip_offs(b)


def gen_chain_program(rng: random.Random) -> List[List[Any]]:
    """Chains of single-use definitions, each folded into the next, where a later link names the whole amount as a
    QUANTITY that only becomes inferable after the earlier links have been folded in (plus decoys)."""
    g = ProgramGen(rng, max_blocks=1)
    v, txt = gen_number(rng)
    unit = rng.choice(["g", "kg", "ml", "l", "tsp", "cups", None, None])
    q = {"q": [c.num_json(v), unit, rng.choice(["", " "]) if unit else "", rng.choice(["", " of"]) if unit else ""],
         "explicit": False, "numtxt": txt}
    base = [rng.choice(WORDS)]
    stmts: List[Any] = [{"outs": [], "named": False, "expr": {"ref": base, "amt": q, "off": -1}, "out_offs": []}]
    prev = base
    n = rng.randrange(1, 5)
    used = {g.key(base)}
    for i in range(n):
        nm = [f"{rng.choice(WORDS)} {i}"] if rng.random() < 0.8 else [rng.choice(WORDS) + " ", c.num_json(i + 2)]
        while g.key(nm) in used:
            nm = [nm[0] + "x"] + nm[1:]
        used.add(g.key(nm))
        kind = rng.random()
        if kind < 0.45:
            amt: Any = {"q": list(q["q"]), "explicit": False, "numtxt": q["numtxt"]}
            conv = g.convert_quantity(q) if rng.random() < 0.4 else None
            amt = conv or amt
            if rng.random() < 0.15:      # a different quantity: must NOT fold
                amt = {"q": [c.num_json(7), amt["q"][1], amt["q"][2], amt["q"][3]], "explicit": False, "numtxt": "7"}
        elif kind < 0.7:
            amt = None
        elif kind < 0.85:
            amt = {"p": [None, False, rng.choice(REMAINDERS[:4]), rng.choice(["", " of the"])], "numtxt": None}
        else:
            amt = {"p": [c.num_json(1.0), True, None, "%"], "numtxt": "100"}
        e: Any = {"ref": prev, "amt": amt, "off": -1}
        for _ in range(rng.randrange(0, 3)):
            e = {"step": [rng.choice(STEPS)], "ins": [e], "short": rng.random() < 0.5}
        if rng.random() < 0.3:
            e = {"step": [rng.choice(STEPS)], "ins": [e, {"ref": ["water"], "amt": None, "off": -1}], "short": False}
        last = i == n - 1
        if last and rng.random() < 0.5:
            stmts.append({"outs": [], "named": False, "expr": e, "out_offs": []})
        else:
            stmts.append({"outs": [nm], "named": rng.random() < 0.4, "expr": e, "out_offs": []})
            prev = nm
    if rng.random() < 0.3:   # a second use of some link: that link must stay unfolded
        stmts.append({"outs": [], "named": False, "out_offs": [],
                      "expr": {"step": ["top"], "ins": [{"ref": prev, "amt": None, "off": -1}], "short": False}})
    return [stmts]


def gen_crossblock_program(rng: random.Random) -> List[List[Any]]:
    """Folds in an earlier block, then a later block that defines and folds a sub recipe USING the earlier result:
    every tree and table entry of later blocks must see the earlier folds."""
    def ref(n, amt=None):
        return {"ref": n, "amt": amt, "off": -1}

    def step(n, *ins):
        return {"step": [n], "ins": list(ins), "short": False}

    def st(outs, e, named=False):
        return {"outs": outs, "named": named, "expr": e, "out_offs": []}
    w = rng.sample(WORDS[:10], 6)
    a, b, c_, d = [w[0]], [w[1] + " mix"], [w[2] + " base"], [w[3] + " top"]
    q = {"q": [c.num_json(rng.choice([100, 250, 2])), rng.choice(["g", "ml", None]), "", ""], "explicit": False,
         "numtxt": None}
    q["numtxt"] = str(c.num_unjson(q["q"][0]))
    if q["q"][1] is None:
        q["q"][2] = ""
    half = {"p": [c.num_json(Fraction(1, 2)), False, None, " of the"], "numtxt": "1/2"}
    b1 = [st([], ref(a, q)), st([b], step(rng.choice(STEPS), ref(a)), named=rng.random() < 0.6)]
    if rng.random() < 0.4:
        b1.append(st([], step("taste", ref(b, half))))             # a use in block 1: b stays a sub recipe
    use_b = ref(b, rng.choice([None, half, {"p": [None, False, "rest", " of the"], "numtxt": None}]))
    b2 = [st([c_], step(rng.choice(STEPS), use_b, ref([w[4]])), named=rng.random() < 0.5),
          st([], step("serve", ref(c_), ref([w[5]])))]
    blocks = [b1, b2]
    if rng.random() < 0.4:
        blocks.append([st([d], step("finish", ref(c_ if rng.random() < 0.3 else b, half))), st([], step("plate", ref(d)))])
    return blocks


def gen_near_amount_program(rng: random.Random) -> List[List[Any]]:
    """A sub recipe with an inferable quantity referenced exactly once by a quantity that is equal to, relatively
    close to (just inside / just outside isclose's 1e-9), or ABSOLUTELY close to (tiny amounts, zero) the whole
    amount: whether the reference is 'the whole amount' (and so folded away) must not depend on magnitude."""
    def ref(n, amt=None):
        return {"ref": n, "amt": amt, "off": -1}

    def step(n, *ins):
        return {"step": [n], "ins": list(ins), "short": False}

    def st(outs, e, named=False):
        return {"outs": outs, "named": named, "expr": e, "out_offs": []}

    def qty(txt, unit):
        v = Fraction(txt) if "/" in txt else (int(txt) if txt.isdigit() else float(txt))
        return {"q": [c.num_json(v), unit, "" if unit is None else " ", ""], "explicit": unit == "handful", "numtxt": txt}
    w = rng.sample(WORDS[:10], 4)
    unit = rng.choice(["kg", "g", "l", None, "handful"])
    a_txt, b_txt = rng.choice([
        ("0.002", "0.0015"), ("0.0005", "0.0002"), ("0.001", "0"), ("0", "0.0004"), ("0.0004", "0.0004"), ("1/2000", "1/5000"),
        ("2", "2"), ("1000000", "1000001"), ("2000000", "1999999"), ("2.5", "2.5000001"), ("100", "100.0000001"), ("100", "100.00000000001"), ("0.5", "1/2"), ("3", "3.0"), ("250", "249"),
    ])
    sub = [w[0] + " base"]
    b1 = [st([sub], step(rng.choice(STEPS), ref([w[1]], qty(a_txt, unit))), named=rng.random() < 0.5),
          st([], step(rng.choice(STEPS), ref(sub, qty(b_txt, unit)), ref([w[2]])))]
    if rng.random() < 0.3:
        return [b1[:1], b1[1:]]
    return [b1]


def gen_repeated_block_program(rng: random.Random) -> List[List[Any]]:
    """A recipe in which a later block REPEATS an earlier block (equal AST; usually other white space, sometimes the
    very same text): blocks are told apart by position, never by content."""
    import copy
    def ref(n, amt=None):
        return {"ref": n, "amt": amt, "off": -1}

    def step(n, *ins):
        return {"step": [n], "ins": list(ins), "short": False}

    def st(outs, e):
        return {"outs": outs, "named": False, "expr": e, "out_offs": []}
    w = rng.sample(WORDS[:10], 5)
    q = {"q": [c.num_json(2), rng.choice([None, "tsp"]), "", ""], "explicit": False, "numtxt": "2"}
    if q["q"][1]:
        q["q"][2] = " "
    first = rng.choice([
        [st([], ref([w[0]], q))],                                        # "2 tsp salt": an inferred-name sub recipe
        [st([], step("beaten", ref([w[0]], q)))],                       # "2 eggs, beaten"-like
        [st([], step(rng.choice(STEPS), ref([w[1]]), ref([w[2]])))],    # no definition at all
    ])
    middle = [st([], step(rng.choice(STEPS), ref([w[3]]), ref([w[4]])))]
    blocks = [first] + ([middle] if rng.random() < 0.6 else []) + [copy.deepcopy(first)]
    if rng.random() < 0.3:
        blocks.append([st([], step("serve", ref([w[0]])))])
    return blocks


def gen_positional_fold_program(rng: random.Random) -> List[List[Any]]:
    """Folds whose definition stands at DIFFERENT statement positions in different blocks, with statements that define
    nothing (a step of two fresh ingredients) before and between the definitions - in particular a later block that
    opens with such a statement after an earlier block had a fold: a fold removes the definition's own tree, wherever
    it stands, and nothing else (seed C05-m26: removal by remembered statement index with a stale offset)."""
    def ref(n, amt=None):
        return {"ref": n, "amt": amt, "off": -1}

    def step(n, *ins):
        return {"step": [n], "ins": list(ins), "short": False}

    def st(outs, e, named=False):
        return {"outs": outs, "named": named, "expr": e, "out_offs": []}
    pairs = [f"{a} {b}" for a in WORDS[:10] for b in ("base", "top", "part", "side", "bit", "glaze")]
    rng.shuffle(pairs)
    fresh = iter(pairs)

    def plain():
        return st([], step(rng.choice(STEPS), ref([next(fresh)]), ref([next(fresh)])))
    blocks = []
    for k in range(rng.choice([2, 2, 3])):
        b = [plain() for _ in range(rng.choice([0, 1, 1, 2]) if k else rng.choice([0, 0, 1]))]
        for _ in range(rng.choice([1, 1, 2])):
            name = [next(fresh)]
            b.append(st([name], step(rng.choice(STEPS), ref([next(fresh)]), ref([next(fresh)])), named=rng.random() < 0.4))
            if rng.random() < 0.3:
                b.append(plain())
            b.append(st([], step("serve", ref(name), ref([next(fresh)]))))
        if rng.random() < 0.3:
            b.append(plain())
        blocks.append(b)
    return blocks


def gen_program(rng: random.Random, **kw: Any) -> List[List[Any]]:
    if not kw and rng.random() < 0.12:
        return gen_chain_program(rng)
    if not kw and rng.random() < 0.05:
        return gen_near_amount_program(rng)
    if not kw and rng.random() < 0.04:
        return gen_repeated_block_program(rng)
    if not kw and rng.random() < 0.06:
        return gen_crossblock_program(rng)
    return ProgramGen(rng, **kw).program()


# --------------------------------------------------------------------------- Gallina (Model/Ast.v types)

def coq_name(parts: List[Any]) -> str:
    return c.lst([f"PStr {c.string(p)}" if isinstance(p, str) else f"PNum {c.num(c.num_unjson(p))}" for p in parts],
                 "part")


def coq_amount(a: Any) -> str:
    if a is None:
        return "(@None amount)"
    if "q" in a:
        v, u, sp, prep = a["q"]
        return (f"(Some (AQty (mkQ {c.num(c.num_unjson(v))} {c.opt(c.string(u) if u is not None else None, 'str')} "
                f"{c.string(sp)} {c.string(prep)})))")
    v, pc, w, prep = a["p"]
    if v is None:
        return f"(Some (AProp (PropRem {c.string(w)} {c.string(prep)})))"
    return f"(Some (AProp (PropVal {c.num(c.num_unjson(v))} {c.boolean(pc)} {c.string(prep)})))"


def coq_expr(e: Any) -> str:
    if "ref" in e:
        return f"(ARef {coq_name(e['ref'])} {coq_amount(e['amt'])} {c.n_(max(e['off'], 0))})"
    return f"(AStep {coq_name(e['step'])} {c.lst([coq_expr(i) for i in e['ins']], 'aexpr')})"


def coq_stmt(s: Any) -> str:
    outs = c.lst([c.pair(coq_name(o), c.n_(max(off, 0))) for o, off in zip(s["outs"], s["out_offs"] or [0] * len(s["outs"]))],
                 "(svs * N)")
    return f"(mkStmt {outs} {c.boolean(s['named'])} {coq_expr(s['expr'])})"


def coq_program(p: List[List[Any]]) -> str:
    return c.lst([c.lst([coq_stmt(s) for s in b], "astmt") for b in p], "(list astmt)")
