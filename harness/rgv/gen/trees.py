"""Seeded generators of recipe tree *skeletons* and decorated recipe_grid.recipe trees (C02, C04).

A skeleton is a nested tuple
    ("I",)                      ingredient
    ("R",)                      reference (a leaf)
    ("S", (kid, ...))           step
    ("U", body, nout, show)     sub recipe with `nout` output names, show_output_names = show
`decorate` turns a skeleton into recipe objects with fresh (identity-distinct) nodes, names from an
adversarial alphabet and quantities / proportions of every form.
"""
from __future__ import annotations

import random
from fractions import Fraction
from typing import Any, Dict, Iterator, List, Optional, Sequence, Tuple

Skel = Tuple[Any, ...]

I: Skel = ("I",)
R: Skel = ("R",)


def S(*kids: Skel) -> Skel:
    return ("S", tuple(kids))


def U(body: Skel, nout: int = 1, show: bool = True) -> Skel:
    return ("U", body, nout, show)


# ------------------------------------------------------------------ measures

def n_leaves(s: Skel) -> int:
    if s[0] in "IR":
        return 1
    if s[0] == "S":
        return sum(n_leaves(k) for k in s[1])
    return n_leaves(s[1])


def n_nodes(s: Skel) -> int:
    if s[0] in "IR":
        return 1
    if s[0] == "S":
        return 1 + sum(n_nodes(k) for k in s[1])
    return 1 + n_nodes(s[1])


def depth(s: Skel) -> int:
    if s[0] in "IR":
        return 1
    if s[0] == "S":
        return 1 + max([depth(k) for k in s[1]] or [0])
    return 1 + depth(s[1])


def max_arity(s: Skel) -> int:
    if s[0] in "IR":
        return 0
    if s[0] == "S":
        return max([len(s[1])] + [max_arity(k) for k in s[1]])
    return max_arity(s[1])


def count_kind(s: Skel, pred) -> int:
    n = 1 if pred(s) else 0
    if s[0] == "S":
        n += sum(count_kind(k, pred) for k in s[1])
    elif s[0] == "U":
        n += count_kind(s[1], pred)
    return n


def well_formed(s: Skel, top: bool = True) -> bool:
    if s[0] in "IR":
        return True
    if s[0] == "S":
        return len(s[1]) >= 1 and all(well_formed(k, False) for k in s[1])
    return s[2] >= 1 and (top or s[2] == 1) and well_formed(s[1], False)


def tags(s: Skel) -> List[str]:
    out = []
    L = n_leaves(s)
    out.append("leaves:" + ("1" if L == 1 else "2-5" if L <= 5 else "6-20" if L <= 20 else "21-100" if L <= 100
                            else ">100"))
    d = depth(s)
    out.append("depth:" + ("1-2" if d <= 2 else "3-5" if d <= 5 else "6-9" if d <= 9 else "10+"))
    out.append("root:" + {"I": "leaf", "R": "leaf", "S": "step"}.get(s[0], "multi" if s[0] == "U" and s[2] != 1
                                                                     else "sub"))
    if count_kind(s, lambda x: x[0] == "U" and x[2] == 1 and x[3]) > 0:
        out.append("has-titled-sub")
    if count_kind(s, lambda x: x[0] == "U" and x[2] == 1 and not x[3]) > 0:
        out.append("has-untitled-sub")
    if count_kind(s, lambda x: x[0] == "U" and x[1][0] == "U") > 0:
        out.append("sub-in-sub")
    if count_kind(s, lambda x: x[0] == "R") > 0:
        out.append("has-reference")
    if count_kind(s, lambda x: x[0] == "S" and len({_width(k) for k in x[1]}) > 1) > 0:
        out.append("ragged")
    if count_kind(s, lambda x: x[0] == "S" and any(k[0] == "U" and _width(k) < max(_width(j) for j in x[1])
                                                     for k in x[1])) > 0:
        out.append("padded-sub")
    return out


def _width(s: Skel) -> int:
    if s[0] in "IR":
        return 1
    if s[0] == "S":
        return 1 + max([_width(k) for k in s[1]] or [0])
    return _width(s[1]) + (0 if s[2] == 1 else 1)


# ------------------------------------------------------------------ random skeletons

def _composition(rng: random.Random, total: int, parts: int, skew: float) -> List[int]:
    """`total` split into `parts` positive integers; skew > 1 makes a few parts big."""
    if parts == 1:
        return [total]
    w = [rng.random() ** skew + 1e-9 for _ in range(parts)]
    sw = sum(w)
    extra = total - parts
    sizes = [1 + int(extra * x / sw) for x in w]
    for _ in range(total - sum(sizes)):
        sizes[rng.randrange(parts)] += 1
    return sizes


def _wrap(rng: random.Random, s: Skel, p_sub: float, budget: int) -> Tuple[Skel, int]:
    """Wrap in 0.. single-output sub recipes (titled / untitled)."""
    used = 0
    while used < budget and rng.random() < p_sub:
        s = U(s, 1, rng.random() < 0.6)
        used += 1
        p_sub *= 0.5
    return s, used


def random_skeleton(rng: random.Random, leaves: int, max_depth: int = 12, p_sub: float = 0.2,
                    p_ref: float = 0.15, max_ar: int = 8, skew: float = 2.0, p_chain: float = 0.15,
                    p_multi: float = 0.15) -> Skel:
    """A well-formed skeleton with exactly `leaves` leaves (when depth permits) and depth <= max_depth."""

    def build(L: int, d: int) -> Skel:
        # d = levels still available (>= 1)
        nwrap = 0
        w: List[bool] = []
        pp = p_sub
        while d - nwrap > 1 and rng.random() < pp:
            w.append(rng.random() < 0.6)
            nwrap += 1
            pp *= 0.5
        d2 = d - nwrap
        if L == 1 and (d2 <= 1 or rng.random() >= p_chain):
            s: Skel = R if rng.random() < p_ref else I
        elif d2 <= 1:
            s = R if rng.random() < p_ref else I   # out of depth: drop the extra leaves
        elif d2 == 2:
            s = S(*[(R if rng.random() < p_ref else I) for _ in range(L)])
        else:
            k = 1 if L == 1 else min(L, 1 + min(int(rng.expovariate(1 / 2.0)), max_ar - 1))
            if L > 1 and k == 1 and rng.random() < 0.7:
                k = 2
            sizes = _composition(rng, L, k, skew)
            rng.shuffle(sizes)
            s = S(*[build(n, d2 - 1) for n in sizes])
        for show in w:
            s = U(s, 1, show)
        return s

    if rng.random() < p_multi and max_depth >= 2:
        return U(build(leaves, max_depth - 1), rng.choice((2, 2, 3, 5)), rng.random() < 0.5)
    return build(leaves, max_depth)


def random_skeletons(rng: random.Random, n: int, big: int = 0) -> List[Skel]:
    """The standard mix: mostly small and medium trees, `big` trees with several hundred leaves."""
    out: List[Skel] = []
    for _ in range(n):
        r = rng.random()
        if r < 0.35:
            L = rng.randrange(1, 7)
        elif r < 0.8:
            L = rng.randrange(4, 25)
        else:
            L = rng.randrange(20, 70)
        out.append(random_skeleton(
            rng, L, max_depth=rng.choice((3, 4, 6, 8, 12, 12)), p_sub=rng.choice((0.0, 0.1, 0.25, 0.5)),
            p_ref=rng.choice((0.0, 0.15, 0.5)), max_ar=rng.choice((2, 3, 5, 9)), skew=rng.choice((1.0, 2.0, 4.0)),
            p_chain=rng.choice((0.0, 0.15, 0.4)), p_multi=rng.choice((0.0, 0.15, 0.5))))
    for _ in range(big):
        L = rng.randrange(200, 500)
        out.append(random_skeleton(rng, L, max_depth=12, p_sub=rng.choice((0.05, 0.15)), p_ref=0.1,
                                   max_ar=rng.choice((6, 20, 60)), skew=rng.choice((1.0, 3.0)),
                                   p_chain=0.05, p_multi=0.3))
    return out


# ------------------------------------------------------------------ exhaustive small skeletons

def _shapes(n: int) -> Iterator[Skel]:
    """All ordered trees with n nodes (leaf = I), every internal node having >= 1 child."""
    if n == 1:
        yield I
        return
    for forest in _forests(n - 1):
        yield S(*forest)


def _forests(n: int) -> Iterator[Tuple[Skel, ...]]:
    """All non-empty ordered forests with n nodes in total."""
    for first in range(1, n + 1):
        for t in _shapes(first):
            if first == n:
                yield (t,)
            else:
                for rest in _forests(n - first):
                    yield (t,) + rest


_WRAPS_1 = ((), (True,), (False,))
_WRAPS_2 = _WRAPS_1 + ((True, True), (True, False), (False, True), (False, False))


def _decorations(s: Skel, wraps: Sequence[Tuple[bool, ...]], leaf_kinds: Sequence[Skel]) -> Iterator[Skel]:
    if s[0] in "IR":
        bases: Iterator[Skel] = iter(leaf_kinds)
    else:
        def prod(kids: Tuple[Skel, ...]) -> Iterator[Tuple[Skel, ...]]:
            if not kids:
                yield ()
                return
            for a in _decorations(kids[0], wraps, leaf_kinds):
                for rest in prod(kids[1:]):
                    yield (a,) + rest
        bases = (S(*ks) for ks in prod(s[1]))
    for b in bases:
        for w in wraps:
            t = b
            for show in w:
                t = U(t, 1, show)
            yield t


def exhaustive_skeletons(max_nodes: int, double_wrap_upto: int = 3, refs_upto: int = 3) -> Iterator[Skel]:
    """Every shape with <= max_nodes step/leaf nodes x every placement of (un)titled single-output sub
    recipes on every node (two nested wrappers on small shapes) x multi-output root or not."""
    for n in range(1, max_nodes + 1):
        wraps = _WRAPS_2 if n <= double_wrap_upto else _WRAPS_1
        kinds = (I, R) if n <= refs_upto else (I,)
        for shape in _shapes(n):
            for t in _decorations(shape, wraps, kinds):
                yield t
                yield U(t, 2, True)
                if n <= 2:
                    yield U(t, 3, False)


# ------------------------------------------------------------------ decoration with real recipe objects

ALPHABET = ["a", "b", "Z", " ", " ", "<", ">", "&", '"', "'", "\\", "{", "}", "%", "#", "/", "-", "_", ".", "*",
            "é", "ß", "中", "\U0001F35E", "​", "́", "<b>", "&amp;", "</td>", "1", "0",
            # Unicode line boundaries (str.splitlines splits at them; HTML does not treat them as white space), TAB, LF
            "\u2028", "\u2029", "\x85", "\x0b", "\x1c", "\x1d", "\x1e", "\n", "\t"]
UNITS = [None, None, "g", "kg", "tsp", "Cups", "ml", "lb", "sack", "<i>", "fl&oz", "TBSP", "pint", "Mug", "Handfuls", "big Sprigs", "É-cup"]


def rand_text(rng: random.Random, lo: int = 1, hi: int = 8) -> str:
    return "".join(rng.choice(ALPHABET) for _ in range(rng.randrange(lo, hi)))


def rand_number(rng: random.Random) -> Any:
    r = rng.random()
    if r < 0.35:
        return rng.choice((0, 1, 2, 3, 10, 12, 100, 250, 1000, rng.randrange(0, 100000)))
    if r < 0.65:
        d = rng.choice((2, 3, 4, 5, 6, 7, 8, 9, 10, 12, 16, 100))
        return Fraction(rng.randrange(0, 40 * d), d)
    return rng.choice((0.5, 0.25, 1.5, 0.1, 2.675, 1e-3, 0.00045, 99.95, 1234.5, rng.random() * 10 ** rng.randrange(-3, 6)))


def rand_svs(rng: random.Random) -> Any:
    from recipe_grid.scaled_value_string import ScaledValueString as SVS
    n = rng.choice((1, 1, 1, 2, 3, 4))
    parts: List[Any] = []
    for _ in range(n):
        parts.append(rand_number(rng) if rng.random() < 0.25 else rand_text(rng))
    if not any(isinstance(p, str) and p for p in parts) and rng.random() < 0.8:
        parts.append(rand_text(rng))
    return SVS(parts)


_UNIT_POOLS: Optional[Tuple[List[str], List[str]]] = None


def unit_pools() -> Tuple[List[str], List[str]]:
    """(names of units that have conversions, names of units known to the unit system WITHOUT conversions),
    every name, alias and plural the live recipe_grid.units.UNIT_SYSTEM knows, sorted."""
    global _UNIT_POOLS
    if _UNIT_POOLS is None:
        from recipe_grid.units import UNIT_SYSTEM
        conv: List[str] = []
        lone: List[str] = []
        for name in sorted(set(UNIT_SYSTEM.iter_names())):
            (conv if len(list(UNIT_SYSTEM.iter_conversions_from(name))) > 1 else lone).append(name)
        _UNIT_POOLS = (conv, lone)
    return _UNIT_POOLS


def as_written(rng: random.Random, name: str) -> str:
    """A spelling of a unit name as an author may write it (the unit system lower-cases before look-up)."""
    r = rng.random()
    if r < 0.5:
        return name
    if r < 0.75:
        return name[:1].upper() + name[1:]
    if r < 0.9:
        return name.upper()
    return "".join(ch.upper() if rng.random() < 0.5 else ch for ch in name)


def rand_unit(rng: random.Random) -> Optional[str]:
    r = rng.random()
    if r < 0.4:
        return rng.choice(UNITS)
    conv, lone = unit_pools()
    if r < 0.7 and lone:
        # known to the unit system but without conversions (clove, tin, packs, boxen, ...): aliases and plurals
        return as_written(rng, rng.choice(lone))
    if conv:
        return as_written(rng, rng.choice(conv))
    return rng.choice(UNITS)


def rand_quantity(rng: random.Random) -> Any:
    from recipe_grid.recipe import Quantity
    unit = rand_unit(rng)
    return Quantity(rand_number(rng), unit, rng.choice(("", " ", "  ")) if unit is not None else "",
                    rng.choice(("", " of", " of the", " <of>", " &")))


def rand_proportion(rng: random.Random) -> Any:
    from recipe_grid.recipe import Proportion
    r = rng.random()
    if r < 0.25:
        return Proportion(1.0)
    if r < 0.4:
        return Proportion(None, remainder_wording=rng.choice(("remaining", "rest", "left over <&>")),
                          preposition=rng.choice(("", " of the", " of")))
    if r < 0.7:
        return Proportion(rng.choice((Fraction(1, 2), Fraction(1, 3), 0.5, 0.25, 1, Fraction(3, 4), 0.3333)),
                          preposition=rng.choice(("", " of the", " *", " * ")))
    # incl. percentages that are not a whole number of percent (12 1/2 %, 2.5 %, 33 1/3 %)
    return Proportion(rng.choice((0.5, 0.25, Fraction(1, 4), 0.1, 1, Fraction(1, 8), 0.025, Fraction(1, 3), 0.125,
                                  Fraction(1, 6), 0.0625)), percentage=True,
                      preposition=rng.choice(("%", "% of the", " % <of>")))


def decorate(rng: random.Random, s: Skel) -> Any:
    """Skeleton -> recipe_grid.recipe tree; every node a fresh object."""
    import recipe_grid.recipe as RR
    from recipe_grid.scaled_value_string import ScaledValueString as SVS
    if s[0] == "I":
        return RR.Ingredient(rand_svs(rng), rand_quantity(rng) if rng.random() < 0.6 else None)
    if s[0] == "R":
        if rng.random() < 0.5:
            sub = RR.SubRecipe(RR.Ingredient(SVS("x")), (SVS("x"),))
            idx = 0
        else:
            names = tuple(rand_svs(rng) for _ in range(rng.randrange(1, 4)))
            body: Any = RR.Ingredient(rand_svs(rng))
            if rng.random() < 0.5:
                body = RR.Step(rand_svs(rng), (body, RR.Ingredient(rand_svs(rng))))
            sub = RR.SubRecipe(body, names, rng.random() < 0.5)
            idx = rng.randrange(len(names))
        amount = rand_quantity(rng) if rng.random() < 0.4 else rand_proportion(rng)
        return RR.Reference(sub, idx, amount)
    if s[0] == "S":
        return RR.Step(rand_svs(rng), tuple(decorate(rng, k) for k in s[1]))
    names = tuple(rand_svs(rng) for _ in range(s[2]))
    return RR.SubRecipe(decorate(rng, s[1]), names, s[3])


def skeleton_of(t: Any) -> Skel:
    import recipe_grid.recipe as RR
    if isinstance(t, RR.Ingredient):
        return I
    if isinstance(t, RR.Reference):
        return R
    if isinstance(t, RR.Step):
        return S(*[skeleton_of(k) for k in t.inputs])
    if isinstance(t, RR.SubRecipe):
        return U(skeleton_of(t.sub_tree), len(t.output_names), t.show_output_names)
    raise TypeError(type(t))


def ltree_term(s: Skel) -> str:
    """Gallina [ltree] (short constructor aliases of Model/Layout.v)."""
    if s[0] == "I":
        return "Li"
    if s[0] == "R":
        return "Lr"
    if s[0] == "S":
        if not s[1]:
            return "(Ls nil)"
        return "(Ls [" + ";".join(ltree_term(k) for k in s[1]) + "])"
    return f"(Lu {ltree_term(s[1])} {s[2]}%nat {'true' if s[3] else 'false'})"


def children(t: Any) -> Tuple[Any, ...]:
    """Drawn children of a recipe node (the sub recipe embedded in a reference is not drawn)."""
    import recipe_grid.recipe as RR
    if isinstance(t, RR.Step):
        return tuple(t.inputs)
    if isinstance(t, RR.SubRecipe):
        return (t.sub_tree,)
    return ()


def paths_by_identity(root: Any) -> Dict[int, Tuple[int, ...]]:
    """id(node) -> path from the root (list of child indices)."""
    out: Dict[int, Tuple[int, ...]] = {}
    stack: List[Tuple[Any, Tuple[int, ...]]] = [(root, ())]
    while stack:
        node, p = stack.pop()
        if id(node) in out:
            raise ValueError("node object occurs twice in the tree; paths by identity are ambiguous")
        out[id(node)] = p
        for i, k in enumerate(children(node)):
            stack.append((k, p + (i,)))
    return out
