"""C04 - the rendered HTML table realises the abstract table cell for cell."""
from __future__ import annotations

import random
from html.parser import HTMLParser
from typing import Any, Dict, List, Optional, Tuple

from .. import coqio, ser
from ..api import Case, Suite
from ..gen import trees as G
from . import C02

ID = "C04"
MERGE = ["C04text", "C04full"]   # cell-text clause: oracle (+ Props/C04text.v when present)
PROPS_FILE = "Props/C04.v"
GEN_DEPS: List[str] = []
ALLOWED_AXIOMS: List[str] = []
THEOREMS: Dict[str, str] = {
    "C04_html_realises_grid": "full",
    "C04_geometry_complete": "full",
    "C04_html_realises_tree": "full",
    "C04_every_row_nonempty": "full",
    "C04_tds_are_cells": "full",
    "C04_span_attrs": "full",
    "C04_classes": "full",
    "C04_emit_fast_eq": "full",
    "C04_example": "example",
}
TRUSTED = [
    "Coq 8.16.1 kernel (coqc; vm_compute for the correspondence only)",
    "Model/HtmlTable.v html_place is a hand transcription of the HTML standard's table-forming algorithm restricted "
    "to td cells with positive spans (no colgroup/thead/tfoot, no rowspan=0); browsers are assumed to implement it",
    "Model/HtmlTable.v emit/render_cell are hand transcriptions of render_table/render_cell of renderer/html.py "
    "(structure only: rows, spans, classes; bodies opaque)",
    "Model/Table.v, Model/Layout.v as for C02",
    "correspondence harness: rgv/props/C04.py (Python html.parser reading of the produced markup), rgv/gen/trees.py",
]
ASSUMPTIONS = ["well-formed trees as in C02", "cell text (C04_cell_text) is not covered yet"]
RULE = ("the trees of C02 (random shapes to depth 12 / several hundred leaves, all sub-recipe decorations, "
        "multi-output roots, references) decorated with every quantity/proportion form and adversarial names, "
        "rendered with id prefixes from a small adversarial alphabet. Non-trivial = more than one td; distinct = "
        "distinct (skeleton, prefix)")

KIND_CLASS = {"ingredient": "rg-ingredient", "reference": "rg-reference", "step": "rg-step",
              "header": "rg-sub-recipe-header", "outputs": "rg-sub-recipe-outputs"}
PREFIXES = ["sub-recipe-", "", "r1-", "a b", "<x>&\"'", "é-", "recipe-12-"]


# ---------------------------------------------------------------- reading the markup

class _TableReader(HTMLParser):
    """Rows of td start tags of the top-level table(s); everything inside a td is body."""

    def __init__(self) -> None:
        super().__init__(convert_charrefs=True)
        self.tables: List[Dict[str, Any]] = []
        self.stack: List[str] = []
        self.problems: List[str] = []
        self.in_td = 0

    def handle_starttag(self, tag: str, attrs: List[Tuple[str, Optional[str]]]) -> None:
        if self.in_td:
            if tag in ("table", "tr", "td", "th"):
                self.problems.append(f"<{tag}> inside a cell body")
            self.stack.append(tag)
            return
        if tag == "table":
            if self.stack:
                self.problems.append("nested table")
            self.tables.append({"attrs": attrs, "rows": []})
        elif tag == "tr":
            if self.stack != ["table"]:
                self.problems.append("tr outside table")
            else:
                self.tables[-1]["rows"].append([])
        elif tag == "td":
            if self.stack != ["table", "tr"]:
                self.problems.append("td outside tr")
            else:
                names = [k for k, _ in attrs]
                if len(set(names)) != len(names):
                    self.problems.append("duplicate attribute on td")
                self.tables[-1]["rows"][-1].append(dict(attrs))
                self.in_td = 1
        else:
            self.problems.append(f"unexpected <{tag}> in table structure")
        self.stack.append(tag)

    def handle_startendtag(self, tag: str, attrs: Any) -> None:
        if not self.in_td:
            self.problems.append(f"unexpected <{tag}/> in table structure")

    def handle_endtag(self, tag: str) -> None:
        if not self.stack or self.stack[-1] != tag:
            self.problems.append(f"unbalanced </{tag}>")
            return
        self.stack.pop()
        if tag == "td" and self.in_td and self.stack == ["table", "tr"]:
            self.in_td = 0

    def handle_data(self, data: str) -> None:
        if not self.in_td and data.strip():
            self.problems.append("text outside cells")


def read_html(markup: str) -> Dict[str, Any]:
    p = _TableReader()
    p.feed(markup)
    p.close()
    if p.stack:
        p.problems.append("unclosed elements: " + ",".join(p.stack))
    return {"tables": p.tables, "problems": p.problems}


def observe(tree: Any, prefix: str) -> Dict[str, Any]:
    from recipe_grid.renderer.html import render_recipe_tree
    try:
        markup = render_recipe_tree(tree, prefix)
    except Exception as e:  # noqa
        return {"error": type(e).__name__ + ": " + str(e)[:100]}
    doc = read_html(markup)
    return {"markup_len": len(markup), "doc": doc}


def _lit(x: Optional[str]) -> str:
    if x is None:
        return "None"
    if all(32 <= ord(ch) <= 126 for ch in x):
        return '(Some "' + x.replace('"', '""') + '")'
    return '(Some "?non-ascii?")'


def _lit1(x: Optional[str]) -> str:
    if x is None:
        return '"?absent?"'
    if all(32 <= ord(ch) <= 126 for ch in x):
        return '"' + x.replace('"', '""') + '"'
    return '"?non-ascii?"'


def coq_out(obs: Dict[str, Any]) -> str:
    if "error" in obs or len(obs["doc"]["tables"]) != 1:
        return "None"
    rows = obs["doc"]["tables"][0]["rows"]
    body = ";".join(
        ("(@nil otd)" if not row else
         "[" + ";".join(f"({_lit(td.get('rowspan'))},{_lit(td.get('colspan'))},{_lit1(td.get('class'))})" for td in row) + "]")
        for row in rows)
    return "(Some [" + body + "])%string" if rows else "(Some (@nil (list otd)))"


# ---------------------------------------------------------------- oracle

def form_table(rows: List[List[Tuple[int, int]]]) -> Tuple[Optional[str], int, int, List[Tuple[int, int, int, int]]]:
    """HTML standard, 'forming a table', for rows of (rowspan, colspan) of td elements."""
    xwidth = 0
    yheight = 0
    ycurrent = 0
    slots: Dict[Tuple[int, int], int] = {}
    cells: List[Tuple[int, int, int, int]] = []
    for row in rows:
        if yheight == ycurrent:
            yheight += 1
        xcurrent = 0
        for (rowspan, colspan) in row:
            while xcurrent < xwidth and (xcurrent, ycurrent) in slots:
                xcurrent += 1
            if xcurrent == xwidth:
                xwidth += 1
            if xwidth < xcurrent + colspan:
                xwidth = xcurrent + colspan
            if yheight < ycurrent + rowspan:
                yheight = ycurrent + rowspan
            for x in range(xcurrent, xcurrent + colspan):
                for y in range(ycurrent, ycurrent + rowspan):
                    if (x, y) in slots:
                        return (f"table model error: slot (row {y}, column {x}) assigned twice", 0, 0, [])
                    slots[(x, y)] = len(cells)
            cells.append((ycurrent, xcurrent, rowspan, colspan))
            xcurrent += colspan
        ycurrent += 1
    for y in range(yheight):
        for x in range(xwidth):
            if (x, y) not in slots:
                return (f"slot (row {y}, column {x}) has no cell", 0, 0, [])
    return (None, yheight, xwidth, cells)


def oracle(tree: Any, obs: Dict[str, Any], tb: Dict[str, Any]) -> Optional[str]:
    if not G.well_formed(G.skeleton_of(tree)):
        return None
    if "error" in obs:
        return None  # crashes while rendering bodies are not this property's business
    if "error" in tb:
        return None  # C02 reports this
    doc = obs["doc"]
    if doc["problems"]:
        return "markup is not a plain table of rows of cells: " + "; ".join(doc["problems"][:3])
    if len(doc["tables"]) != 1:
        return f"{len(doc['tables'])} tables in the markup"
    rows = doc["tables"][0]["rows"]
    spans: List[List[Tuple[int, int]]] = []
    for r, row in enumerate(rows):
        srow = []
        for td in row:
            sp = []
            for a in ("rowspan", "colspan"):
                v = td.get(a)
                if v is None:
                    sp.append(1)
                    continue
                if not (v.isascii() and v.isdigit()) or v != str(int(v)) or int(v) < 1:
                    return f"{a} attribute {v!r} is not a plain positive integer"
                if int(v) == 1:
                    return f"{a}=\"1\" written out (attributes for spans of 1 are to be omitted)"
                sp.append(int(v))
            srow.append((sp[0], sp[1]))
        spans.append(srow)
    err, R, C, cells = form_table(spans)
    if err:
        return err
    if (R, C) != (tb["rows"], tb["cols"]):
        return f"the browser forms a {R}x{C} table, the abstract table is {tb['rows']}x{tb['cols']}"
    abstract = {(x["r"], x["c"]): x for x in tb["cells"]}
    if len(cells) != len(abstract):
        return f"{len(cells)} td elements for {len(abstract)} abstract cells"
    flat = [td for row in rows for td in row]
    for (r, c, h, w), td in zip(cells, flat):
        x = abstract.get((r, c))
        if x is None:
            return f"a td is placed at ({r},{c}) where no abstract cell starts"
        if (h, w) != (x["rows"], x["cols"]):
            return f"td at ({r},{c}) has extent {h}x{w}, the abstract cell {x['rows']}x{x['cols']}"
        cls = (td.get("class") or "").split()
        if not cls or cls[0] != KIND_CLASS.get(x["kind"]):
            return f"td at ({r},{c}): first class {cls[:1]} is not the class of a {x['kind']}"
        want = [f"rg-border-{e}-{b.replace('_', '-')}" for e, b in zip(("left", "right", "top", "bottom"), x["borders"])
                if b != "normal"]
        if sorted(cls[1:]) != sorted(want):
            return f"td at ({r},{c}): border classes {cls[1:]} do not match the cell's borders {x['borders']}"
    return None


# ---------------------------------------------------------------- cases

def make_case(tree: Any, prefix: str) -> Case:
    skel = G.skeleton_of(tree)
    obs = observe(tree, prefix)
    tb = C02.observe(tree)
    impl: Any
    if "error" in obs:
        impl = obs
    else:
        t = obs["doc"]["tables"]
        impl = {"tables": len(t), "problems": obs["doc"]["problems"][:3],
                "rows": [[[td.get("rowspan"), td.get("colspan"), td.get("class")] for td in row]
                         for row in (t[0]["rows"][:12] if t else [])]}
    ntd = 0 if "error" in obs or not obs["doc"]["tables"] else sum(len(r) for r in obs["doc"]["tables"][0]["rows"])
    tg = G.tags(skel) + ["prefix:" + ("default" if prefix == "sub-recipe-" else "other")]
    if "error" in obs:
        tg.append("render-raised")
    return Case(input={"tree": ser.node_json(tree), "prefix": prefix}, coq_in=G.ltree_term(skel),
                coq_out=coq_out(obs),
                impl=impl, violation=oracle(tree, obs, tb), nontrivial=ntd > 1, tags=tg)


def replay(inp: Any) -> Case:
    return make_case(ser.node_unjson(inp["tree"]), inp["prefix"])


def known_match(finding: Any, case: Case) -> bool:
    return False


def search(seed: int, budget_s: float) -> List[Case]:
    """Hunt for a tree on which the property text fails (driver calls this when something is broken)."""
    import time
    t0 = time.time()
    rng = random.Random(seed * 104729 + 4)
    out: List[Case] = []
    hits = 0
    budget = min(budget_s, 60.0)
    for sk in G.exhaustive_skeletons(4, double_wrap_upto=3, refs_upto=2):
        c = make_case(G.decorate(rng, sk), rng.choice(PREFIXES))
        if c.violation:
            out.append(c)
            hits += 1
        if hits >= 3 or time.time() - t0 > budget / 2:
            break
    while hits < 3 and time.time() - t0 < budget:
        for sk in G.random_skeletons(rng, 50):
            c = make_case(G.decorate(rng, sk), rng.choice(PREFIXES))
            if c.violation:
                out.append(c)
                hits += 1
    return out


IMPORTS = ["From Coq Require Import String.",
           "From RG Require Import Model.Table Model.Layout Model.HtmlTable."]


def suites(tier: str, seed: int) -> List[Suite]:
    su = Suite(name="htmltable", imports=IMPORTS, in_ty="ltree", out_ty="option (list (list otd))",
               check="check_htmltable", show="show_htmltable", shard=110)
    pl = Suite(name="place", imports=IMPORTS, in_ty="ltree", out_ty="unit", check="check_place",
               show="(fun t => match recipe_tree_to_table t with Ok tb => Some (html_place (spans (emit (fun _ => nil) tb)), geometry tb) | Err _ => None end)",
               shard=100)
    if tier == "replay":
        return [su, pl]
    rng = random.Random(seed * 7919 + 4)
    seen = set()
    cases: List[Case] = []
    if tier == "quick":
        sk = list(G.exhaustive_skeletons(3, double_wrap_upto=2, refs_upto=2))
        sk += G.random_skeletons(rng, 1600, big=6)
    else:
        sk = list(G.exhaustive_skeletons(5, double_wrap_upto=3, refs_upto=3))
        sk += G.random_skeletons(rng, 15000, big=60)
    for s in sk:
        if s in seen:
            continue
        seen.add(s)
        cases.append(make_case(G.decorate(rng, s), rng.choice(PREFIXES)))
    cases.sort(key=lambda c: len(c.coq_out), reverse=True)
    nsh = max(1, (len(cases) + su.shard - 1) // su.shard)
    buckets: List[List[Case]] = [[] for _ in range(nsh)]
    for i, c in enumerate(cases):
        buckets[i % nsh].append(c)
    su.shard = len(buckets[0])
    for b in buckets:
        su.cases.extend(b)
    # the model's own markup through the model of the browser algorithm: a sample (the general
    # statement is theorem C04_html_realises_grid); the few largest trees only once in a while
    for c in cases[2::3] if tier == "quick" else cases[5::8]:
        pl.cases.append(Case(input=c.input, coq_in=c.coq_in, coq_out="tt", impl=None, violation=None,
                             nontrivial=c.nontrivial, tags=["place"]))
    return [su, pl]
