"""C05 - see DESIGN.md section 5 (C01/C05/C08 share the compiler model)."""
from __future__ import annotations

from typing import Any, List

from ..api import Case, Suite
from .. import compile_common as CC

ID = "C05"
PROPS_FILE = "Props/C05.v"
PROPS_EXTRA = ["Props/C05sym.v", "Props/C05e2e.v"]   # C05e2e: drawn exactly once, composed with C02/C04e2e (Proofs/GlueOnce.v)
GEN_DEPS = ["GenUnits"]
ALLOWED_AXIOMS: List[str] = []
THEOREMS = {
    "C05_substitution_invisible": "full",
    "C05_conservation": "full",
    "C05_conservation_inst": "full",
    "C05_conservation_resolve": "full",
    "C05_example_accepted": "example",
    "C05_nodes_exactly_once": "full",
    "C05e2e_tree_tds_once": "full", "C05e2e_td_values_of_text": "full", "C05e2e_compiled_written_once": "full", "C05_drawn_exactly_once": "full", "C05e2e_example": "example",
}
TRUSTED = [
    "Coq 8.16.1 kernel (coqc; vm_compute for correspondence only)",
    "Model/Compiler.v is a hand-written model of recipe_grid/compiler.py on the parser's AST (values already evaluated); "
    "tied to the code by the correspondence suite 'compile' (abstract program -> printed source -> real compile(); object graph "
    "incl. number types, or error kind + position, compared inside Coq)",
    "Model/Recipe.v models recipe.py (dataclass ==, substitute, Recipe.__post_init__); Model/Units.v + Gen/GenUnits.v (regenerated) give convert_between",
    "the generator/printer harness/rgv/gen/programs.py (its print->parse contract is checked against the real parser by C06)",
    "str.lower modelled by a generated table; str.strip by CPython's isspace set",
]
ASSUMPTIONS = ["numbers of at most 15 significant digits; nesting depth <= 25 (interpreter recursion limit outside the model)"]
RULE = ("abstract recipe descriptions over a small shared name pool (so earlier/later/repeated/cross-block mentions are frequent): "
        "1-3 blocks, explicit/:=/inferred/multiple outputs, nesting to depth 7, every amount form, deliberately erroneous programs "
        "(redefinitions, proportions of unknown names); printed under random spelling; non-trivial = accepted with a reference or a "
        "fold, or rejected; distinct = distinct (program, sources)")


def suites(tier: str, seed: int) -> List[Suite]:
    return [CC.compile_suite(ID, tier, seed)]


def replay(inp: Any) -> Case:
    return CC.make_case(inp["program"], inp["sources"], ID)


def known_match(finding: Any, case: Case) -> bool:
    return False
