"""C18 - title and serving count are read from the heading as documented."""
from __future__ import annotations

import html
import random
import re
from typing import Any, Dict, List, Optional, Tuple

from .. import coqio
from ..api import Case, Suite

ID = "C18"
PROPS_FILE = "Props/C18.v"
GEN_DEPS = ["GenRegex", "GenDocs"]
ALLOWED_AXIOMS: List[str] = []
THEOREMS = {
    "C18_regex_pin": "full",
    "documented_are_candidates": "full",
    "C18_documented_phrases": "full",
    "C18_count_only_after_serving_word": "full",
    "C18_no_count_otherwise": "full",
    "C18_only_first_heading": "full",
    "C18_plain_title_percent_refuted": "refuted",
    "C18_title_ending_in_to_example": "example",
    "C18_examples": "example",
}
TRUSTED = [
    "Coq 8.16.1 kernel (coqc; vm_compute for the correspondence, the pin, the finite phrase/candidate tables and Examples)",
    "translator: GenRegex = CPython's own re._parser.parse tree of the live title_serving_count_pattern (+ flags); "
    "GenDocs = the bullet list of title forms in docs/source/markdown_reference.rst",
    "hand-written scanner Model/Title.v implements Python's re.search for the pinned pattern (leftmost start, "
    "alternatives in engine order, greedy loops); \\s / IGNORECASE / str.strip character sets are CPython 3.12's, "
    "re-enumerated from the running interpreter on every run (suite `charsets`) and the scanner is compared with "
    "the live pattern object on adversarial strings (suite `search`)",
    "marko: a heading's inner HTML is what render_children returns (taken from marko itself per case); html.unescape "
    "is a parameter of the model (theorems hold for any function), instantiated for the correspondence with the four "
    "entities marko's renderer emits",
    "correspondence harness: rgv/props/C18.py, coqio serialiser, in-Coq comparison",
]
ASSUMPTIONS = [
    "C18_documented_phrases: the title part does not end in white space followed by the word 'to' (then the engine's "
    "leftmost match takes 'to serves' as the preposition: Example C18_title_ending_in_to_example) and the number has at "
    "most 4300 digits (beyond that CPython's int() raises ValueError: explicit outcome of the model)",
    "the heading shows the count scaled with the recipe (header note) is covered by the correspondence oracle only",
]
RULE = ("documents whose first heading is ATX / setext (closing hashes, leading spaces, multi-line setext), level 1 or 2, "
        "preceded or not by prose / recipe blocks / quoted headings, followed by further headings; EMPTY first headings of levels 1-3 followed by a plain H1; titles that contain the serving phrase earlier with the identical spelling (and the phrase doubled), one- and two-character titles (letter, digit, astral), titles with 'for', "
        "digits, punctuation, entities, non-ASCII, '%', inline markup, raw inline HTML that is not an element (comment, processing instruction, declaration, CDATA: no title, no count, plain rendering), scaled-value braces with and without numbers, empty braces, escaped braces (plain text); a count of 0 (must be shown); every documented phrase x "
        "case variants (incl. U+017F, U+212A, U+0130/0131) x spacings (space, tab, NBSP, U+3000, several) x N (1 digit "
        "to 4301 digits, leading zeros) x trailing space; near-miss endings; a case is non-trivial when the document "
        "has a heading; distinct = distinct document text")


# ---------------------------------------------------------------- implementation side

def documented_phrases() -> List[List[str]]:
    from ..translate_docs import serving_phrases
    return serving_phrases()


def impl(doc: str) -> Dict[str, Any]:
    from recipe_grid.markdown import compile_markdown
    try:
        r = compile_markdown(doc)
    except ValueError as e:
        if "integer string conversion" in str(e):
            return {"error": "ValueError"}
        raise
    return {"title": r.title, "servings": r.servings, "recipe": r}


def headings_seen(doc: str) -> List[Tuple[int, str]]:
    """(level, inner HTML) of every heading in rendering order, produced by marko's own renderer with the repo's
    inline extension (the exact `text` render_heading works on)."""
    from marko import Markdown, block
    from recipe_grid.markdown import RecipeGrid
    md = Markdown(extensions=[RecipeGrid])
    parsed = md.parse(doc)
    hs: List[Any] = []

    def walk(e: Any) -> None:
        if isinstance(e, (block.Heading, block.SetextHeading)):
            hs.append(e)
            return
        ch = getattr(e, "children", None)
        if isinstance(ch, list):
            for c in ch:
                walk(c)

    walk(parsed)
    out = []
    md.renderer.root_node = parsed
    with md.renderer as r:
        for h in hs:
            out.append((h.level, r.render_children(h)))
    return out


def header_shows_scaled_count(rec: Any, n: int, k: int) -> Optional[str]:
    """'the heading then shows the count scaled with the recipe' (oracle only)."""
    out = rec.render(k)
    m = re.search(r'<h1 class="rg-title-scalable">(.*?)</h1>', out, re.S)
    if not m:
        return "no scalable title heading in the rendered page"
    m2 = re.search(r'<span class="rg-serving-count">.*?<span class="rg-scaled-value">([0-9]+)</span></span>\s*$',
                   m.group(1), re.S)
    if not m2 or int(m2.group(1)) != n * k:
        return f"heading at scale {k} does not show {n * k}: {m.group(1)[-120:]!r}"
    if k != 1 and f"Rescaled from <span class=\"rg-original-servings\">{n} serving" not in out:
        return "no 'Rescaled from N servings' note"
    return None


def oracle(spec: Dict[str, Any], res: Dict[str, Any]) -> Optional[str]:
    """Documented behaviour from the generator's knowledge of what it wrote."""
    if "error" in res:
        return None if spec.get("huge") else "compile_markdown raised ValueError"
    title, servings = res["title"], res["servings"]
    if not spec["captured"]:
        # no heading first / lower level / markup: no serving count (the title is not constrained by the text)
        if servings is not None:
            return f"serving count {servings} inferred although {spec['why_not']}"
        if spec.get("first_empty"):
            # an EMPTY first heading is the first heading: nothing is taken from any later heading
            want = "" if spec["first_empty"] == 1 else None
            if title != want:
                return f"title {title!r} although the first heading is an empty level-{spec['first_empty']} heading"
        if spec.get("brace") and title is not None:
            # a heading with a scaled-value (brace) expression, with or without a number inside: no title either
            return f"title {title!r} inferred although the heading contains a brace expression"
        if spec.get("raw_html"):
            # raw inline HTML (comment, processing instruction, declaration, CDATA) is markup: no title either, and
            # the heading is rendered exactly as plain CommonMark renders it
            if title is not None:
                return f"title {title!r} inferred although {spec['why_not']}"
            import marko
            m = re.search(r"<h1>.*?</h1>", marko.Markdown()(spec["doc"]), re.S)
            if m is None or m.group(0) not in res["recipe"].render(1):
                return f"heading with raw HTML is not rendered as plain CommonMark ({m.group(0) if m else None!r})"
        return None
    if spec.get("lenient"):
        return None
    if spec["phrase"] is not None:
        if title != spec["title"] or servings != spec["n"]:
            return (f"heading {spec['heading']!r}: expected title {spec['title']!r} and {spec['n']} servings, got "
                    f"{title!r} / {servings!r}")
        if spec["n"] == 0:
            # a count of zero is a count: it must be shown (scale 1 only; other scales are not meaningful for 0)
            return header_shows_scaled_count(res["recipe"], 0, 1)
        if spec["n"] and spec["n"] < 10 ** 6:
            return header_shows_scaled_count(res["recipe"], spec["n"], 3) or \
                header_shows_scaled_count(res["recipe"], spec["n"], 1)
        return None
    if title != spec["title"] or servings is not None:
        return f"heading {spec['heading']!r}: expected title {spec['title']!r} and no serving count, got {title!r} / {servings!r}"
    return None


def big_n(n: int) -> str:
    """Large naturals as hexadecimal literals (Coq converts decimal literals quadratically)."""
    return coqio.n_(n) if n < 10 ** 18 else f"{hex(n)}%N"


def structure_ok(doc: str, spec: Dict[str, Any]) -> bool:
    """Plain marko (no extension) must see the intended heading first, with the intended text."""
    import marko
    m = re.search(r"<h([1-6])>(.*?)</h\1>", marko.Markdown()(doc), re.S)
    if spec.get("why_not") == "there is no heading":
        return m is None
    if m is None:
        return False
    if spec.get("first_empty"):
        return int(m.group(1)) == spec["first_empty"] and html.unescape(m.group(2)).strip() == ""
    if spec.get("lenient"):
        return True
    if not spec["captured"]:
        # the generator's reason must be visible to plain marko too: first heading below level 1, or with markup
        return int(m.group(1)) != 1 or "<" in m.group(2) or "{" in m.group(2)
    if int(m.group(1)) != 1 or "<" in m.group(2):
        return False
    return html.unescape(m.group(2)).strip() == spec["heading_plain"].strip()


def make_case(doc: str, spec: Dict[str, Any], tags: List[str]) -> Case:
    res = impl(doc)
    hs = headings_seen(doc)
    cin = coqio.lst([coqio.pair(coqio.n_(l), coqio.string(t)) for l, t in hs], "(N * str)")
    if "error" in res:
        out = "TValueError"
        shown: Any = res
    else:
        t, n = res["title"], res["servings"]
        out = f"(TOk {coqio.opt(None if t is None else coqio.string(t), 'str')} " \
              f"{coqio.opt(None if n is None else big_n(n), 'N')})"
        shown = {"title": t, "servings": n}
    return Case(input={"doc": doc, "spec": spec}, coq_in=cin, coq_out=out, impl=shown,
                violation=oracle(spec, res), nontrivial=bool(hs), tags=tags)


def search_case(x: str) -> Case:
    from recipe_grid.markdown import RecipeGridRendererMixin as M
    m = M.title_serving_count_pattern.search(x)
    if m is None:
        out = coqio.opt(None, "(N * str * str * str)")
        shown = None
    else:
        out = coqio.opt(coqio.pair(coqio.n_(m.start()), coqio.string(m["space"]), coqio.string(m["preposition"]),
                                   coqio.string(m["servings"])))
        shown = [m.start(), m["space"], m["preposition"], m["servings"]]
    return Case(input={"search": x}, coq_in=coqio.string(x), coq_out=out, impl=shown, violation=None,
                nontrivial=m is not None, tags=["search", "match" if m else "no-match"])


def strip_case(x: str) -> Case:
    return Case(input={"strip": x}, coq_in=coqio.string(x), coq_out=coqio.string(x.strip()), impl=x.strip(),
                violation=None, tags=["strip"])


def charset_cases() -> List[Case]:
    """The character sets of the model, re-enumerated from the running interpreter."""
    from recipe_grid.markdown import RecipeGridRendererMixin as M
    flags = M.title_serving_count_pattern.flags
    ws = [c for c in range(0x110000) if re.match(r"\s", chr(c))]
    stripped = [c for c in range(0x110000) if (chr(c) + "a" + chr(c)).strip() == "a"]
    cases = [Case(input={"charset": "ws"}, coq_in="is_ws",
                  coq_out=coqio.lst([coqio.n_(c) for c in ws], "N"), impl=ws,
                  violation=None if ws == stripped else "\\s and str.strip disagree", tags=["charset"])]
    for l in sorted(set("toservesmakeforing")):
        p = re.compile(l, flags)
        eq = [c for c in range(0x110000) if p.match(chr(c))]
        cases.append(Case(input={"charset": l}, coq_in=f"(ci_eq {ord(l)}%N)",
                          coq_out=coqio.lst([coqio.n_(c) for c in eq], "N"), impl=eq, violation=None, tags=["charset"]))
    dg = [c for c in range(0x110000) if re.match("[0-9]", chr(c), flags)]
    cases.append(Case(input={"charset": "digit"}, coq_in="is_digit", coq_out=coqio.lst([coqio.n_(c) for c in dg], "N"),
                      impl=dg, violation=None, tags=["charset"]))
    return cases


def replay(inp: Any) -> Case:
    if "doc" in inp:
        return make_case(inp["doc"], inp["spec"], ["replay"])
    if "search" in inp:
        return search_case(inp["search"])
    if "strip" in inp:
        return strip_case(inp["strip"])
    return next(c for c in charset_cases() if c.input == inp)


def known_match(finding: Any, case: Case) -> bool:
    if finding.get("matches") == "plain_title_percent":
        inp = case.input
        if not isinstance(inp, dict) or "spec" not in inp:
            return False
        sp = inp["spec"]
        return bool(sp.get("captured") and sp.get("percent") and isinstance(case.impl, dict)
                    and case.impl.get("title") is None and case.impl.get("servings") is None)
    return False


# ---------------------------------------------------------------- generators

# (markdown source of the title part, its plain text)
TITLES: List[Tuple[str, str]] = [
    ("Spam", "Spam"), ("Spam and eggs", "Spam and eggs"), ("Comfort food", "Comfort food"), ("Forty cloves", "Forty cloves"),
    ("Food for thought", "Food for thought"), ("2 for 1 pizza", "2 for 1 pizza"), ("7 Up cake", "7 Up cake"),
    ("Dinner for 2 then lunch", "Dinner for 2 then lunch"), ("Serves you right", "Serves you right"),
    ("Mac 'n' cheese!", "Mac 'n' cheese!"), ("Fish & chips", "Fish & chips"), ("Fish &amp; chips", "Fish & chips"),
    ("a &lt; b", "a < b"), ("x > y", "x > y"), ('say "cheese"', 'say "cheese"'), ("&copy; cake", "© cake"),
    ("Crème brûlée", "Crème brûlée"), ("&#169; pie", "© pie"), ("café 中文", "café 中文"),
    ("Pie (v2.0): the sequel", "Pie (v2.0): the sequel"), ("Soup for 2 for", "Soup for 2 for"), ("Eggs 4 ways", "Eggs 4 ways"),
    ("Stew serves 4 or so", "Stew serves 4 or so"), ("AT&amp;T stew", "AT&T stew"), ("1\\. Bread", "1. Bread"),
    ("Bread \\*really\\*", "Bread *really*"), ("makes", "makes"), ("Make", "Make"), ("Serving suggestions", "Serving suggestions"),
]
# titles whose LITERAL text looks like a character reference: the entities must be decoded exactly once
ENTITY_LIKE_TITLES: List[Tuple[str, str]] = [
    ("Escaping \\&lt; in HTML", "Escaping &lt; in HTML"), ("Tom &amp;amp; Jerry", "Tom &amp; Jerry"),
    ("a &amp;lt; b", "a &lt; b"), ("it&amp;#x27;s", "it&#x27;s"), ("Grade &#65;", "Grade A"),
    ("Grade &amp;#65;", "Grade &#65;"), ("\\&quot;quoted\\&quot;", "&quot;quoted&quot;"), ("&amp;gt; than", "&gt; than"),
    ("&amp;amp;amp;", "&amp;amp;"), ("AT\\&amp;T", "AT&amp;T"), ("&quot;hi&quot;", '"hi"'), ("x &amp;nbsp; y", "x &nbsp; y"),
    ("&amp;copy; 2020", "&copy; 2020"), ("1 &lt; 2 \\&amp;lt; 3", "1 < 2 &amp;lt; 3"), ("&#38;lt;", "&lt;"),
    ("&#x26;amp; co", "&amp; co"),
]
TITLES += ENTITY_LIKE_TITLES
TITLES += [("Soup \\{x\\}", "Soup {x}"), ("\\{not scaled\\} stew", "{not scaled} stew")]
# titles that contain the serving phrase earlier with the identical spelling (and the phrase doubled), one- and two-character titles (letter, digit, non-ASCII, astral)
SHORT_TITLES: List[Tuple[str, str]] = [("A", "A"), ("7", "7"), ("\U0001f355", "\U0001f355"), ("\xe9", "\xe9"), ("ab", "ab"),
                                       ("x1", "x1"), ("\U0001f355\U0001f355", "\U0001f355\U0001f355"), ("42", "42"), ("z", "z")]
TITLES += SHORT_TITLES
PERCENT_TITLES = [("100% rye", "100% rye"), ("50%", "50%"), ("Rye (100%)", "Rye (100%)")]
RAW_HTML_TITLES = ["Lentil soup <!-- v2 -->", "<!--x--> Soup", "Soup <?php x ?>", "Soup <!DOCTYPE x>", "Soup <![CDATA[x]]>",
                   "Soup <!-- a --> and <!-- b -->", "<?x?>"]
# brace (scaled value) expressions WITHOUT a number, and empty braces: still scaled-value expressions
BRACE_TITLES = ["Spam {with eggs}", "{} Soup", "Soup {a b} stew", "{x}", "Eggs {with 2 yolks}", "Soup {for}"]
MARKUP_TITLES = ["*Spam*", "`code` pie", "[Spam](http://x)", "Spam <b>bold</b>", "Spam **and** eggs", "{2} eggs", "Eggs {1/2}",
                 "![img](a.png) cake", "<span>x</span>"]
SPACINGS = [" ", " ", "  ", "\t", " \t ", "\xa0", " \xa0", "\u3000", "\u2003 ", "&nbsp;"]


def case_variant(rng: random.Random, w: str) -> str:
    k = rng.randrange(6)
    if k == 0:
        return w
    if k == 1:
        return w.upper()
    if k == 2:
        return w.capitalize()
    if k == 3:
        return "".join(rng.choice((c.lower(), c.upper())) for c in w)
    if k == 4:
        return w.replace("s", "ſ", 1).replace("k", "K").replace("i", rng.choice("İı"))
    return w.swapcase()


def gen_number(rng: random.Random) -> Tuple[str, bool]:
    k = rng.randrange(12)
    if k < 5:
        return str(rng.randrange(1, 13)), False
    if k < 7:
        return str(rng.randrange(0, 1000)), False
    if k == 7:
        return "0" * rng.randrange(1, 4) + str(rng.randrange(0, 50)), False
    if k == 8:
        return str(rng.randrange(10 ** 19, 10 ** 30)), False
    if k == 9:
        return "0", False
    if k == 10:
        return "7" * 4300, False
    return "1" * 4301, True


def heading_source(rng: random.Random, text: str, level: int) -> Tuple[List[str], str]:
    """Markdown lines of a heading with the given inline source."""
    k = rng.randrange(6)
    if k <= 2 or level > 2:
        return ["#" * level + " " + text], "atx"
    if k == 3:
        return [" " * rng.randrange(0, 4) + "#" * level + rng.choice([" ", "  ", "\t"]) + text + " " + "#" * rng.randrange(1, 4)], "atx-closed"
    if k == 4 and " " in text and "\t" not in text and text[text.index(" ") + 1: text.index(" ") + 2].isalnum():
        i = text.index(" ")
        return [text[:i], text[i + 1:], ("=" if level == 1 else "-") * 5], "setext-2-lines"
    return [text, ("=" if level == 1 else "-") * rng.randrange(1, 9)], "setext"


def gen_doc(rng: random.Random, phrases: List[List[str]]) -> Tuple[str, Dict[str, Any], List[str]]:
    tags: List[str] = []
    spec: Dict[str, Any] = {"captured": True, "phrase": None, "n": None, "percent": False}
    # ---- the heading text
    kind = rng.choices(["phrase", "plain", "nearmiss", "markup", "percent", "undocumented"], [10, 3, 4, 2, 1, 1])[0]
    src, plain = rng.choice(TITLES)
    inline = src
    plain_full = plain
    if kind == "percent":
        src, plain = rng.choice(PERCENT_TITLES)
        inline = src
        plain_full = plain
        spec["percent"] = True
        kind = rng.choice(["phrase", "plain"])
        tags.append("title:percent")
    if kind == "phrase":
        ph = rng.choice(phrases)
        words = [case_variant(rng, w) for w in ph]
        digits, huge = gen_number(rng)
        sp1 = rng.choice(SPACINGS)
        text_ph = rng.choice(SPACINGS).join(words)
        sp2 = rng.choice(SPACINGS)
        if rng.random() < 0.25 and "&" not in sp2 + text_ph:
            # the same phrase text (same case, same following white space) already occurs inside the title
            extra = " " + text_ph + sp2 + rng.choice(["thought", "you", "4 now", "x"])
            src, plain = src + extra, plain + extra
            spec["title"] = plain
            tags.append("phrase-earlier-in-title")
        inline = src + sp1 + text_ph + sp2 + digits
        plain_full = plain + (sp1 + text_ph + sp2 + digits).replace("&nbsp;", "\xa0")
        spec.update(phrase=" ".join(ph), n=int(digits) if not huge else None, title=plain, huge=huge)
        tags += ["phrase:" + " ".join(ph), "digits:" + ("1" if len(digits) == 1 else "2-3" if len(digits) < 4 else
                                                        "4300" if len(digits) == 4300 else "4301" if huge else "long")]
        if re.search(r"\s[tT][oO]$", plain) and ph == ["serves"]:
            spec["lenient"] = True
    elif kind == "plain":
        spec.update(title=plain)
        tags.append("ending:none")
    elif kind == "nearmiss":
        end = rng.choice([" 4", " x4", " for four", " for 4 people", " for4", "for 4", " serves: 4", " for 4.", " to 4",
                          " make 4", " to mak 4", " for -4", " for 4 5", " for \u0664", " forr 4", " 4 for"])
        inline = src + end
        plain_full = plain + end
        spec.update(title=plain + end)
        if re.search(r"(^|\s)(to|serve|serves|make|makes|for|serving)$", plain, re.I):
            spec["lenient"] = True
        tags.append("ending:near-miss")
    elif kind == "undocumented":
        end = rng.choice([" serve 4", " to serves 4", " To  Serves 12"])
        inline = src + end
        plain_full = plain + end
        spec.update(lenient=True, title=None)
        tags.append("ending:undocumented-form")
    elif kind == "markup":
        m = rng.choice(MARKUP_TITLES + RAW_HTML_TITLES + BRACE_TITLES)
        if m in RAW_HTML_TITLES:
            spec["raw_html"] = True
        if m in BRACE_TITLES:
            spec["brace"] = True
        ph = rng.choice(phrases)
        inline = m + " " + " ".join(ph) + " " + str(rng.randrange(1, 9))
        spec.update(captured=False, why_not="the heading contains markup or a scaled value")
        tags.append("title:markup")
    # ---- level and position
    level = 1 if rng.random() < 0.8 else 2
    if level != 1 and spec["captured"]:
        spec.update(captured=False, why_not="the first heading is not level 1")
    lines, style = heading_source(rng, inline, level)
    tags += ["style:" + style, f"level:{level}"]
    pre: List[str] = []
    k = rng.randrange(8)
    if k == 0:
        pre = ["Some prose first.", ""]
    elif k == 1:
        pre = ["    1 egg", "", "More prose", ""]
    elif k == 2:
        pre = ["## Sub heading for 3", ""]
        spec.update(captured=False, why_not="the first heading is not level 1")
    elif k == 3:
        pre = ["> # Quoted for 3", ""]
        spec.update(captured=True, phrase="for", n=3, title="Quoted", lenient=True, huge=False)
        tags.append("first-heading-in-quote")
    elif k == 4:
        pre = ["", ""]
    tags.append("preceded:" + {0: "prose", 1: "recipe+prose", 2: "h2", 3: "quoted-h1", 4: "blank"}.get(k, "nothing"))
    post: List[str] = ["", "Prose.", ""]
    if rng.random() < 0.5:
        post += ["# Another title for " + str(rng.randrange(13, 99)), "", "Second for 77", "====", ""]
        tags.append("later-headings")
    if rng.random() < 0.4:
        post += ["```recipe", "1 egg", "```", ""]
    doc = "\n".join(pre + lines + post)
    if spec.get("raw_html") and (level != 1 or k in (2, 3)):
        del spec["raw_html"]          # another reason / another heading decides: only the count is constrained
    if spec.get("brace") and (level != 1 or k in (2, 3)):
        del spec["brace"]
    spec["doc"] = doc if spec.get("raw_html") else None
    spec["heading"] = inline[:200]
    spec["heading_plain"] = plain_full
    if any(src == s0 for s0, _ in ENTITY_LIKE_TITLES) and kind != "markup":
        tags.append("title:entity-like")
    tags.append("kind:" + kind)
    return doc, spec, tags


SEARCH_ALPHABET = ["to", "serve", "serves", "make", "makes", "for", "serving", "TO", "Serves", "\u017ferves", "ma\u212aes",
                   "serv\u0130ng", "serv\u0131ng", " ", "  ", "\t", "\n", "\xa0", "\u3000", "\x1f", "\x85", "1", "23", "0",
                   "\u0664", "x", "s", "e", "-", "\u200b", "\x1c", "4 ", "fo", "r", "\u2028", "\u180e", "<", "%"]


def rand_search_text(rng: random.Random) -> str:
    if rng.random() < 0.4:
        return "".join(rng.choice(SEARCH_ALPHABET) for _ in range(rng.choice([1, 2, 3, 4, 5, 6, 8, 12])))
    # structured: <prefix> <ws> <words> <ws> <digits> <trailing>, then possibly damaged
    ws = [" ", "  ", "\t", "\n", "\xa0", "\u3000", "\x1f", "\x85 ", "\u2028"]
    words = rng.choice([["to", "serve"], ["to", "serves"], ["serve"], ["serves"], ["to", "make"], ["make"], ["for"],
                        ["makes"], ["serving"], ["to"], ["to", "for"], ["to", "to", "serve"], ["for", "for"]])
    words = [case_variant(rng, w) for w in words]
    prefix = rng.choice(["", "x", "Spam", "Spam to", "a for 2", "to", " ", "x to ", "\u017f", "Spam  serves 4", "for"])
    x = prefix + rng.choice(ws) + rng.choice(ws).join(words) + rng.choice(ws) + rng.choice(["1", "12", "007", "4\u0664"]) \
        + rng.choice(["", "", " ", "\n", " \n", "x", "\n\n", "\u200b"])
    k = rng.randrange(5)
    if k == 0 and x:
        i = rng.randrange(len(x))
        x = x[:i] + x[i + 1:]
    elif k == 1:
        i = rng.randrange(len(x) + 1)
        x = x[:i] + rng.choice(SEARCH_ALPHABET) + x[i:]
    return x


def suites(tier: str, seed: int) -> List[Suite]:
    imp = ["From RG Require Import Model.Title."]
    ti = Suite(name="title", imports=imp, in_ty="title_in", out_ty="title_out", check="check_title",
               show="(document_capture unescape_basic)", shard=150)
    se = Suite(name="search", imports=imp, in_ty="str", out_ty="option (N * str * str * str)", check="check_search",
               show="serving_search")
    st = Suite(name="strip", imports=imp, in_ty="str", out_ty="str", check="check_strip", show="strip")
    cs = Suite(name="charsets", imports=imp, in_ty="N -> bool", out_ty="list N", check="check_charset", show="members")
    if tier == "replay":
        return [ti, se, st, cs]
    rng = random.Random(seed * 7919 + 18)
    phrases = documented_phrases()
    seen = set()
    n = 900 if tier == "quick" else 20000
    # every documented phrase x a few systematic variants first
    for ph in phrases:
        for words in ([w for w in ph], [w.upper() for w in ph], [w.capitalize() for w in ph]):
            for sp in (" ", "  ", "\t"):
                for digits in ("1", "12"):
                    inline = "Spam and eggs" + sp + sp.join(words) + sp + digits
                    doc = "# " + inline + "\n\nProse.\n"
                    spec = {"captured": True, "phrase": " ".join(ph), "n": int(digits), "title": "Spam and eggs",
                            "percent": False, "huge": False, "heading": inline, "heading_plain": inline}
                    if doc not in seen:
                        seen.add(doc)
                        ti.cases.append(make_case(doc, spec, ["systematic", "phrase:" + " ".join(ph)]))
    # every documented phrase after titles that contain the serving phrase earlier with the identical spelling (and the phrase doubled), one- and two-character titles, ATX and setext
    for ph in phrases:
        for src, plain in SHORT_TITLES:
            for style in ("atx", "setext"):
                inline = src + " " + " ".join(ph) + " 3"
                doc = ("# " + inline + "\n\nProse.\n") if style == "atx" else (inline + "\n===\n\nProse.\n")
                spec = {"captured": True, "phrase": " ".join(ph), "n": 3, "title": plain, "percent": False, "huge": False,
                        "heading": inline, "heading_plain": inline}
                if doc not in seen and structure_ok(doc, spec):
                    seen.add(doc)
                    ti.cases.append(make_case(doc, spec, ["systematic", "short-title", "phrase:" + " ".join(ph),
                                                          "style:" + style]))
    # the title itself contains the serving phrase earlier, spelt identically (and the phrase doubled): the title is
    # everything before the LAST occurrence (leftmost match of the end-anchored pattern, C18_documented_phrases)
    for ph in phrases:
        for words in ([w for w in ph], [w.capitalize() for w in ph], [w.upper() for w in ph]):
            for sp in (" ", "  "):
                phtxt = sp.join(words)
                for title in ("Food " + phtxt + " thought", "Soup " + phtxt, phtxt + " you " + phtxt + " me",
                              "A" + sp + phtxt + sp + "B"):
                    if title.lower().endswith(" to"):
                        continue
                    inline = title + sp + phtxt + sp + "2"
                    doc = "# " + inline + "\n\nProse.\n"
                    spec = {"captured": True, "phrase": " ".join(ph), "n": 2, "title": title, "percent": False,
                            "huge": False, "heading": inline, "heading_plain": inline}
                    if doc not in seen and structure_ok(doc, spec):
                        seen.add(doc)
                        ti.cases.append(make_case(doc, spec, ["systematic", "phrase-earlier-in-title",
                                                              "phrase:" + " ".join(ph)]))
    # raw inline HTML that is not an element, in ATX and setext first headings, with every documented phrase
    for ph in phrases:
        for raw in RAW_HTML_TITLES:
            for style in ("atx", "setext"):
                inline = raw + " " + " ".join(ph) + " 4"
                doc = ("# " + inline + "\n\nProse.\n") if style == "atx" else (inline + "\n===\n\nProse.\n")
                spec = {"captured": False, "why_not": "the heading contains raw HTML", "raw_html": True, "doc": doc,
                        "phrase": None, "percent": False, "heading": inline, "heading_plain": inline}
                if doc not in seen and structure_ok(doc, spec):
                    seen.add(doc)
                    ti.cases.append(make_case(doc, spec, ["systematic", "title:raw-html", "style:" + style]))
    # brace expressions without a number (also around the phrase itself) in the first heading
    for ph in phrases:
        phtxt = " ".join(ph)
        for inline in [b + " " + phtxt + " 2" for b in BRACE_TITLES] + ["Pancakes {" + phtxt + "} 4",
                                                                         "Pancakes {" + phtxt + " 4}",
                                                                         "Pancakes " + phtxt + " {} 4"]:
            for style in ("atx", "setext"):
                doc = ("# " + inline + "\n\nProse.\n") if style == "atx" else (inline + "\n===\n\nProse.\n")
                spec = {"captured": False, "why_not": "the heading contains a scaled-value (brace) expression",
                        "brace": True, "phrase": None, "percent": False, "heading": inline, "heading_plain": inline}
                if doc not in seen and structure_ok(doc, spec):
                    seen.add(doc)
                    ti.cases.append(make_case(doc, spec, ["systematic", "title:brace-no-number", "style:" + style]))
    # an empty first heading (levels 1-3) followed by a plain H1 with a serving phrase: only the first heading counts
    for ph in phrases:
        for lvl, first in [(1, "#"), (1, "# #"), (1, "# &#32;"), (2, "##"), (2, "## &#32;"), (2, "## ##"), (3, "###"),
                           (3, "### ###")]:
            for later in ("# Soup " + " ".join(ph) + " 2", "Soup " + " ".join(ph) + " 2\n===="):
                for gap in ("\n\n", "\n"):
                    doc = first + gap + later + "\n\nProse.\n"
                    spec = {"captured": False, "why_not": "the first heading is empty (only the first heading counts)",
                            "first_empty": lvl, "phrase": None, "percent": False, "heading": first,
                            "heading_plain": ""}
                    if doc not in seen and structure_ok(doc, spec):
                        seen.add(doc)
                        ti.cases.append(make_case(doc, spec, ["systematic", "first-heading-empty", f"level:{lvl}"]))
    # a count of zero
    for ph in phrases:
        for digits in ("0", "00"):
            inline = "Plain rice " + " ".join(ph) + " " + digits
            doc = "# " + inline + "\n\nProse.\n"
            spec = {"captured": True, "phrase": " ".join(ph), "n": 0, "title": "Plain rice", "percent": False,
                    "huge": False, "heading": inline, "heading_plain": inline}
            if doc not in seen and structure_ok(doc, spec):
                seen.add(doc)
                ti.cases.append(make_case(doc, spec, ["systematic", "count-zero", "phrase:" + " ".join(ph)]))
    ti.cases.append(make_case("Just prose, no heading.\n", {"captured": False, "why_not": "there is no heading",
                                                             "percent": False, "phrase": None}, ["no-heading"]))
    for _ in range(n):
        doc, spec, tags = gen_doc(rng, phrases)
        if doc in seen or not structure_ok(doc, spec):
            continue
        seen.add(doc)
        ti.cases.append(make_case(doc, spec, tags))
    for _ in range(n * 2):
        x = rand_search_text(rng)
        if "S" + x not in seen:
            seen.add("S" + x)
            se.cases.append(search_case(x))
            st.cases.append(strip_case(x))
    cs.cases = charset_cases()
    return [ti, se, st, cs]
