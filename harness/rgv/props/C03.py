"""C03 - scaling multiplies exactly the scalable numbers and nothing else (recipe level)."""
from __future__ import annotations

import random
from fractions import Fraction
from typing import Any, List, Optional

from .. import coqio as c
from .. import ser
from ..api import Case, Suite
from . import C08

ID = "C03"
MERGE = ["C03commute"]   # clause "scale after compile = compile the pre-multiplied source" (coordinator)
PROPS_FILE = "Props/C03.v"
PROPS_EXTRA = ["Props/C03e2e.v"]   # glue: scaling at the level of the rendered HTML (Proofs/GlueScale.v)
GEN_DEPS: List[str] = []
ALLOWED_AXIOMS: List[str] = []
THEOREMS = {
    "C03e2e_scaled_structure": "full", "C03e2e_td_scaled": "full", "C03e2e_scaled_skeleton": "full", "C03e2e_body_skeleton": "full", "C03e2e_scaled_cells": "full", "C03_compiled_scaled_structure": "full", "C03_compiled_scaled_skeleton": "full", "C03_compiled_scaled_cells": "full", "C03e2e_scale_blocks_trees": "full", "C03e2e_fraction_tags_needed": "example", "C03e2e_id_changes_skeleton_does_not": "example",
    "C03_scale_characterised": "full",
    "C03_scale_blocks_characterised": "full",
    "C03_scale_characterised_ex": "example",
    "C03_svs_normal_preserved": "full",
    "C03_svs_normal_preserved_ex": "example",
    "C03_scale_one": "full",
    "C03_scale_one_stable": "full",
    "C03_scale_unit_exact": "full",
    "C03_scale_one_identity": "full",
    "C03_scale_one_ex": "example",
    "C03_scale_compose": "full",
    "C03_scale_compose_defined": "full",
    "C03_scale_compose_float_counterexample": "example",
    "C03_scale_valid": "full",
}
TRUSTED = [
    "Coq 8.16.1 kernel (coqc, vm_compute for correspondence only)",
    "model Model/Recipe.v scale_node / scale_blocks of the scale methods in recipe_grid/recipe.py and "
    "scaled_value_string.py; tied by suite 'scale' (structural comparison, number types included)",
    "Base/Num.v nmul: Python int/Fraction/float multiplication (float(Fraction) and float*float each one correctly "
    "rounded binary64 operation); validated bit-exactly by the suite on float data and float factors",
    "floats are finite binary64 values in canonical form (wf_float: the invariant of the encoder rgv/coqio.py float_me)",
    "correspondence harness: rgv/props/C03.py + C08.py generators, rgv/ser.py serialiser",
    "scaling commutes with compilation and the Markdown prose part are stated on the compiler / Markdown models",
]
ASSUMPTIONS = ["scaled numbers stay within binary64 range (float overflow to inf is outside the model)"]
RULE = ("recipes compiled from generated programs (gen/programs.py) and hand-written ones x one factor (ints, "
        "Fractions, floats, the units 1, Fraction(1), 1.0) and x pairs of factors applied in sequence; model "
        "scale_blocks compared structurally with [r.scale(k) for r in recipes].  Non-trivial: the recipe contains at "
        "least one scalable number and the factor is not the int 1")

IMPORTS = ["From RG Require Import Model.Recipe Proofs.RecipeCorr."]


# ---------------------------------------------------------------- oracle: lock-step walk of both object graphs

def _num_ok(old: Any, new: Any, k: Any) -> bool:
    want = old * k
    return type(new) is type(want) and new == want


def _svs_walk(x: Any, y: Any, k: Any, where: str) -> Optional[str]:
    px, py = x._string, y._string
    if len(px) != len(py):
        return f"{where}: number of parts changed"
    for a, b in zip(px, py):
        if isinstance(a, str):
            if not (isinstance(b, str) and a == b):
                return f"{where}: text {a!r} became {b!r}"
        else:
            if isinstance(b, str) or not _num_ok(a, b, k):
                return f"{where}: number {a!r} became {b!r}, expected {a * k!r}"
    return None


def _qty_walk(x: Any, y: Any, k: Any, where: str) -> Optional[str]:
    if (x.unit, x.value_unit_spacing, x.preposition) != (y.unit, y.value_unit_spacing, y.preposition):
        return f"{where}: unit / spacing / preposition changed"
    if not _num_ok(x.value, y.value, k):
        return f"{where}: quantity {x.value!r} became {y.value!r}, expected {x.value * k!r}"
    return None


def lockstep(a: Any, b: Any, k: Any, where: str = "root") -> Optional[str]:
    """Anything that differs between a and b must be a scalable number equal to old * k (Python arithmetic)."""
    import recipe_grid.recipe as R
    if type(a) is not type(b):
        return f"{where}: node type changed"
    if isinstance(a, R.Ingredient):
        r = _svs_walk(a.description, b.description, k, where + ".description")
        if r:
            return r
        if (a.quantity is None) != (b.quantity is None):
            return f"{where}: quantity appeared / disappeared"
        return _qty_walk(a.quantity, b.quantity, k, where + ".quantity") if a.quantity is not None else None
    if isinstance(a, R.Step):
        r = _svs_walk(a.description, b.description, k, where + ".description")
        if r:
            return r
        if len(a.inputs) != len(b.inputs):
            return f"{where}: number of inputs changed"
        for i, (x, y) in enumerate(zip(a.inputs, b.inputs)):
            r = lockstep(x, y, k, f"{where}.inputs[{i}]")
            if r:
                return r
        return None
    if isinstance(a, R.Reference):
        if a.output_index != b.output_index:
            return f"{where}: output index changed"
        r = lockstep(a.sub_recipe, b.sub_recipe, k, where + ".sub_recipe")
        if r:
            return r
        if type(a.amount) is not type(b.amount):
            return f"{where}: amount kind changed"
        if isinstance(a.amount, R.Quantity):
            return _qty_walk(a.amount, b.amount, k, where + ".amount")
        if a.amount != b.amount or repr(a.amount) != repr(b.amount):
            return f"{where}: proportion changed from {a.amount!r} to {b.amount!r}"
        return None
    if isinstance(a, R.SubRecipe):
        if a.show_output_names != b.show_output_names or len(a.output_names) != len(b.output_names):
            return f"{where}: output names / flag changed"
        for i, (x, y) in enumerate(zip(a.output_names, b.output_names)):
            r = _svs_walk(x, y, k, f"{where}.output_names[{i}]")
            if r:
                return r
        return lockstep(a.sub_tree, b.sub_tree, k, where + ".sub_tree")
    return f"{where}: unknown node type"


def lockstep_recipes(rs: List[Any], ss: List[Any], k: Any) -> Optional[str]:
    if len(rs) != len(ss):
        return "number of blocks changed"
    for b, (r, s) in enumerate(zip(rs, ss)):
        if len(r.recipe_trees) != len(s.recipe_trees):
            return f"block {b}: number of trees changed"
        for j, (x, y) in enumerate(zip(r.recipe_trees, s.recipe_trees)):
            v = lockstep(x, y, k, f"block {b} tree {j}")
            if v:
                return v
        # the scaled block's own 'follows' chain is the scaled chain
        f, g, d = r.follows, s.follows, b
        while f is not None or g is not None:
            d -= 1
            if f is None or g is None or d < 0:
                return f"block {b}: 'follows' chain changed length"
            if g != ss[d]:
                return f"block {b}: 'follows' is not the scaled previous block"
            f, g = f.follows, g.follows
    return None


def all_numbers(rs: List[Any]) -> List[Any]:
    import recipe_grid.recipe as R
    out: List[Any] = []
    for r in rs:
        for t in r.recipe_trees:
            for n in C08.iter_all(t):
                if isinstance(n, (R.Ingredient, R.Step)):
                    out += [p for p in n.description._string if not isinstance(p, str)]
                if isinstance(n, R.Ingredient) and n.quantity is not None:
                    out.append(n.quantity.value)
                if isinstance(n, R.Reference) and isinstance(n.amount, R.Quantity):
                    out.append(n.amount.value)
                if isinstance(n, R.SubRecipe):
                    for nm in n.output_names:
                        out += [p for p in nm._string if not isinstance(p, str)]
    return out


def oracle(recipes: List[Any], ks: List[Any]) -> Optional[str]:
    import recipe_grid.recipe as R
    try:
        cur = recipes
        for k in ks:
            nxt = [r.scale(k) for r in cur]
            v = lockstep_recipes(cur, nxt, k)
            if v:
                return f"scale({k!r}): {v}"
            v = C08.strict_violation(nxt, names=False)
            if v:
                return f"scale({k!r}) result is not a valid recipe: {v}"
            cur = nxt
        for one in (1, Fraction(1), 1.0):
            # Fraction * 1.0 is a float in Python: equal only up to float(Fraction) rounding; skip that combination
            if isinstance(one, float) and any(isinstance(v, Fraction) for v in all_numbers(recipes)):
                continue
            if [r.scale(one) for r in recipes] != recipes:
                return f"scale({one!r}) is not the identity"
        if len(ks) == 2 and not any(isinstance(v, float) for v in all_numbers(recipes) + ks):
            if cur != [r.scale(ks[0] * ks[1]) for r in recipes]:
                return f"scale({ks[0]!r}) then scale({ks[1]!r}) differs from scale({ks[0] * ks[1]!r})"
    except R.RecipeInvariantError as e:
        return f"scaling raised {type(e).__name__}"
    return None


def make_case(texts: List[str], recipes: List[Any], ks: List[Any]) -> Case:
    cur = recipes
    err = None
    try:
        for k in ks:
            cur = [r.scale(k) for r in cur]
    except Exception as e:  # reported by the oracle
        err = type(e).__name__
        cur = []
    nums = all_numbers(recipes)
    if len(ks) == 1:
        cin = f"(SOne {c.num(ks[0])} {ser.blocks(recipes)})"
        inp = {"sources": texts, "k": c.num_json(ks[0])}
    else:
        cin = f"(STwo {c.num(ks[0])} {c.num(ks[1])} {ser.blocks(recipes)})"
        inp = {"sources": texts, "a": c.num_json(ks[0]), "b": c.num_json(ks[1])}
    tags = ["one-factor" if len(ks) == 1 else "two-factors"] + ["factor-" + type(k).__name__ for k in ks]
    tags.append("float-data" if any(isinstance(v, float) for v in nums) else "exact-data")
    if any(k == 1 for k in ks):
        tags.append("unit-factor")
    return Case(input=inp, coq_in=cin, coq_out=ser.blocks(cur), impl=err or f"{len(nums)} numbers scaled",
                violation=oracle(recipes, ks), nontrivial=bool(nums) and not all(k == 1 and isinstance(k, int) for k in ks),
                tags=tags)


def mk_suite() -> Suite:
    return Suite(name="scale", imports=IMPORTS, in_ty="scase", out_ty="blocks", check="check_scale", show="show_scale",
                 shard=40)


def suites(tier: str, seed: int) -> List[Suite]:
    su = mk_suite()
    if tier == "replay":
        return [su]
    rng = random.Random(seed * 7919 + 3)
    corpus = C08.compiled_corpus(rng, 400 if tier == "quick" else 5000)
    for texts, recipes in corpus:
        su.cases.append(make_case(texts, recipes, [C08.gen_factor(rng)]))
        su.cases.append(make_case(texts, recipes, [C08.gen_factor(rng), C08.gen_factor(rng)]))
        if rng.random() < 0.5:
            su.cases.append(make_case(texts, recipes, [rng.choice([1, Fraction(1), 1.0])]))
    return [su]


def replay(inp: Any) -> Case:
    st, val = C08._compile_job(inp["sources"])
    if st != "ok":
        raise ValueError(f"sources no longer compile: {val}")
    ks = [c.num_unjson(inp["k"])] if "k" in inp else [c.num_unjson(inp["a"]), c.num_unjson(inp["b"])]
    return make_case(inp["sources"], val, ks)


def known_match(finding: Any, case: Case) -> bool:
    return False
