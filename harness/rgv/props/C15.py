"""C15 - the site contains exactly the right pages, each scaled to its serving count."""
from __future__ import annotations

from typing import Any, List

from .. import site_common as SC
from ..api import Case, Suite

ID = "C15"
PROPS_FILE = "Props/C15.v"
GEN_DEPS: List[str] = []
ALLOWED_AXIOMS: List[str] = []
THEOREMS = {
    "C15_construction_pure": "full",
    "C15_pass_invariant": "full",
    "C15_construction_pure_ex": "example",
    "C15_page_set": "full",
    "C15_page_set_ex": "example",
    "C15_pages_distinct_in_directory": "full",
    "C15_one_page_per_recipe_refuted": "refuted",
    "C15_page_scale": "full",
    "C15_native_page_unscaled": "full",
    "C15_page_scale_ex": "example",
    "C15_lists_by_title": "full",
    "C15_error_iff": "full",
    "C15_error_iff_ex": "example",
    "C15_error_iff_hyp_ex": "example",
}
TRUSTED = [
    "Coq 8.16.1 kernel (coqc; vm_compute for the correspondence and the concrete examples only)",
    "what compile_markdown returns for a file (title, servings, links, scaled values of render(factor)) is the parameter "
    "e_compile of the model; the harness fills it from compile_markdown itself (uncached) and the C15 oracle compares "
    "every generated recipe page with an independent render(n / native)",
    "Jinja rendering and lxml serialisation are not modelled: pages are compared through html.parser (title, every "
    "href/src in document order, breadcrumbs, category / recipe lists, serving menu, rg-scaled-value texts)",
    "Model/Fs.v for the directory walk (iterdir / is_dir / open through symbolic links); Model/Url.v, Model/Href.v (C14)",
    "correspondence harness: rgv/site_common.py, rgv/gen/sitegen.py; Python's sorted() on (title, name) tuples is taken "
    "to be a stable sort by code points (Model/Site.v sort_by, key_leb)",
]
ASSUMPTIONS = [
    "max_servings >= 1 and stated serving counts >= 1 (a title stating 0 servings raises ZeroDivisionError: modelled, not generated)",
    "entry names are unique within a directory; no directory is called <stem>.html for a recipe <stem>.md of the same "
    "directory or index.html (such trees crash with an OSError while writing: reported as a suspected defect)",
]
RULE = ("generated source trees (depth <= 4, fan-out <= 4, adversarial names, readmes in every letter case, scalable and "
        "unscalable recipes, equal titles, symbolic links to files and directories, M in 1..12) plus planted faults "
        "(recipe stating more than M servings, missing titles, broken recipes, several readmes); suite site-history: "
        "generate, edit recipes / readmes in place (also at the same length with the timestamps restored: serving counts, "
        "quantities), generate again in the same process - compared with the model and with a fresh process; "
        "non-trivial = more than 3 pages or an error / at least 2 generations")


def suites(tier: str, seed: int) -> List[Suite]:
    site = SC.site_suite()
    hist = SC.history_suite()
    big = SC.big_site_suite()
    if tier == "replay":
        return [site, hist, big]
    if tier == "quick":
        plan = [("valid", "small", 8), ("valid", "medium", 22), ("valid", "deep", 6), ("errors", "small", 6),
                ("max-servings", "small", 4), ("errors", "medium", 6), ("f12", "small", 3), ("valid", "bigM", 5), ("title-with-scaled-value", "small", 2),
                ("valid", "medium:rm", 4), ("valid", "small:wsrm", 2), ("empty-recipe-block", "small", 2),
                ("multiple-readme-same-name", "small", 1)]
    else:
        plan = [("valid", "small", 300), ("valid", "medium", 1000), ("valid", "deep", 300), ("errors", "small", 200),
                ("errors", "medium", 200), ("max-servings", "medium", 100), ("f12", "small", 30), ("f12", "medium", 30), ("valid", "bigM", 150), ("title-with-scaled-value", "small", 30),
                ("valid", "medium:rm", 120), ("valid", "small:wsrm", 60), ("empty-recipe-block", "small", 30),
                ("multiple-readme-same-name", "small", 20)]
    site.cases = SC.gen_site_cases("C15", seed, plan)
    # the compile cache (recipe_directory.py) must not make a page show a recipe as it was before an edit
    hist.cases = SC.gen_edit_history_cases(seed, 8 if tier == "quick" else 120)
    # rebuild INTO THE SAME OUTPUT DIRECTORY after quantities were edited / prose deleted and with M or M + 1: content,
    # scaling and menus of the edited tree (page oracle on the result + fresh-process comparison)
    hist.cases += SC.gen_rebuild_history_cases(seed, 8 if tier == "quick" else 120, "C15")
    # a tiny tree with a recipe written for more than 256 servings (~600 pages): exactly the promised files, no extra
    # assets/<recipe>.md
    big.cases = SC.gen_big_m_cases(seed + 1, 1 if tier == "quick" else 4, "C15")
    return [site, hist, big]


def replay(inp: Any) -> Case:
    return SC.replay_any(inp, "C15")


def known_match(finding: Any, case: Case) -> bool:
    if finding.get("matches") == "stem_clash":
        return case.input["site"].get("fault") == "f12" and (case.violation or "").startswith("stem-clash")
    return False
