"""C17 - the site output is a pure function of the source tree."""
from __future__ import annotations

import random
from typing import Any, Dict, List, Tuple

from .. import site_common as SC
from ..api import Case, Suite
from ..gen import sitegen as G

ID = "C17"
PROPS_FILE = "Props/C17.v"
GEN_DEPS: List[str] = []
ALLOWED_AXIOMS: List[str] = []
THEOREMS = {
    "C17_history_invariant": "full",
    "C17_history_from_start": "full",
    "C17_cache_transparent": "full",
    "C17_cache_lookup_correct": "full",
    "C17_history_invariant_ex": "example",
    "C17_sorted_order_invariant": "full",
    "C17_sorted_is_sorted": "full",
    "C17_sorted_equal_keys_refuted": "refuted",
    "C17_order_invariant_ex": "example",
    "C17_order_invariant": "full",
    "C17_order_invariant_fs_ex": "example",
    "C17_hierarchy_order_invariant": "full",
    "C17_pass_order_invariant": "full",
    "C17_order_invariant_hyp_ex": "example",
}
TRUSTED = [
    "Coq 8.16.1 kernel (coqc; vm_compute for the correspondence and the concrete examples only)",
    "functools.lru_cache(compile_markdown) is modelled as an LRU association list of 128 entries keyed by the text "
    "(Model/Site.v cached_compile); compile_markdown itself is a function of the text (its random placeholders never "
    "reach the output: C13)",
    "the directory listing order is the order of the entry lists of the abstract file system; the harness imposes it "
    "on the implementation by replacing pathlib.Path.iterdir in the harness process (no change to the repository)",
    "Model/Fs.v, Model/Url.v, Model/Href.v; html.parser read-back; rgv/site_common.py, rgv/gen/sitegen.py",
]
ASSUMPTIONS = ["entry names are unique within a directory", "the random generator's state is varied per generation "
               "(random.seed) - independence from it is C13's statement"]
RULE = ("suite site-order: the same generated tree under 3 listing orders (every directory permuted), each compared with "
        "the model run on that order, oracle = output hash equal across the orders; suite site-history: in ONE process "
        "(warm cache from all earlier cases), generations under shuffled listing orders and different RNG seeds, "
        "interleaved with edits of recipes / readmes, other max-servings and stand-alone pages, each generation compared "
        "with the model's run_history and (oracle) with the same generation in a fresh interpreter; non-trivial = at "
        "least 2 generations / more than 3 pages")


def _order_job(args: Tuple[int, int, int, str]) -> List[Case]:
    seed, i, variants, size = args
    rng = random.Random((seed * 1000003 + i) * 7 + 1)
    # every 7th tree: a defect that must be reported the same way under every listing order / RNG state
    prof = {3: "title-with-scaled-value", 5: "multiple-readme-same-name", 1: "empty-recipe-block"}.get(i % 7, "valid")
    if prof == "valid" and i % 7 in (2, 6):
        size = size + ":st"       # sibling directories with EQUAL titles whose names differ only after the last dot
    site = G.gen_site(rng, prof, size)
    out: List[Case] = []
    ref = None
    for v in range(variants):
        s2 = site if v == 0 else SC.shuffle_site(site, rng.randrange(10 ** 9))
        facts = SC.collect_facts(s2)
        obs, viol = SC.run_and_judge(s2, seed * 100000 + i * 10 + v, "C17", facts)     # placeholder-residue oracle
        hsh = SC.site_hash(obs)
        if ref is None:
            ref = hsh
        elif hsh != ref and viol is None:
            viol = f"output differs between two listing orders of the same tree ({ref[:16]} vs {hsh[:16]})"
        out.append(Case(input={"site": s2, "seed": seed * 100000 + i * 10 + v, "variant": v},
                        coq_in=SC.coq_site_in(s2, facts), coq_out=SC.coq_site_obs(obs), impl=SC.obs_json(obs),
                        violation=viol, nontrivial=("error" in obs) or len(obs["pages"]) > 3,
                        tags=SC.site_tags(s2, obs) + [f"order-variant:{v}"]))
    return out


def _defect_hist_job(args: Tuple[int, int]) -> Case:
    """a tree with one defect that every process must report the same way (never with seed-dependent output): two
    generations under different RNG seeds in the long-lived process, each compared with a fresh process"""
    seed, i = args
    rng = random.Random((seed * 1000003 + i) * 7 + 3)
    prof = ["empty-recipe-block", "title-with-scaled-value", "multiple-readme-same-name"][i % 3]
    site = G.gen_site(rng, prof, "small")
    if site["M"] < 2:
        site["M"] = 2
    steps = [{"op": "gen", "M": site["M"], "order": rng.randrange(10 ** 6), "rng": rng.randrange(10 ** 6)} for _ in range(2)]
    return SC.make_history_case(site, steps, seed * 100000 + i)


def _alone_then_site_job(args: Tuple[int, int]) -> Case:
    """site (a recipe without H1: RecipeMissingTitleError) -> stand-alone page of that very file (allowed: title
    'Recipe') -> the site again: must fail exactly as before / as in a fresh process"""
    seed, i = args
    rng = random.Random((seed * 1000003 + i) * 7 + 14)
    site = G.gen_site(rng, "valid", "small")
    if site["M"] < 2:
        site["M"] = 2
    src = [c_ for c_ in site["base"]["ch"] if c_["name"] == "src"][0]
    dirs = [((), src)] + [(p, n) for p, n in G.walk(src) if n["k"] == "d"]
    dp, dn = rng.choice(dirs)
    text = rng.choice(["No heading here {2}\n\n    2 eggs\n", "## Only level two\n\nText\n", "Just prose.\n",
                       "Intro\n\n## Later heading\n\n    1 egg\n"])
    dn["ch"] = [c_ for c_ in dn["ch"] if c_["name"] != "untitled.md"] + [G.F("untitled.md", text=text)]
    if rng.random() < 0.5:
        # the stand-alone page is made from ANOTHER file with exactly the same text
        src["ch"] = [c_ for c_ in src["ch"] if c_["name"] != "copy of it.md"] + [G.F("copy of it.md", text=text)]
        afile = ["src", "copy of it.md"]
    else:
        afile = ["src"] + list(dp) + ["untitled.md"]
    site["profile"], site["fault"] = "recipe-missing-title", "recipe-missing-title"
    g = {"op": "gen", "M": site["M"], "order": rng.randrange(10 ** 6), "rng": rng.randrange(10 ** 6)}
    alone = {"op": "alone", "file": afile, "scale": rng.choice([None, "2"]), "servings": None, "embed": False, "rng": 5}
    steps = [dict(g), alone, dict(g, rng=rng.randrange(10 ** 6))]
    if rng.random() < 0.4:
        steps = steps[1:]          # the stand-alone page first, then the site
    return SC.make_history_case(site, steps, seed * 100000 + i)


def _hist_job(args: Tuple[int, int]) -> Case:
    seed, i = args
    rng = random.Random((seed * 1000003 + i) * 7 + 2)
    site = G.gen_site(rng, "valid", rng.choice(["small", "small", "medium"]))
    if site["M"] > 5:
        site["M"] = rng.randrange(1, 5)
    steps = SC.gen_history(rng, site)
    return SC.make_history_case(site, steps, seed * 100000 + i)


def suites(tier: str, seed: int) -> List[Suite]:
    order = SC.site_suite()
    order.name = "site-order"
    hist = SC.history_suite()
    if tier == "replay":
        return [order, hist]
    n_order, n_hist = (14, 14) if tier == "quick" else (400, 200)
    jobs = [(seed, i, 3, ["small", "medium", "medium", "deep"][i % 4]) for i in range(n_order)]
    for cs in SC.pmap(_order_job, jobs):
        order.cases.extend(cs)
    # the histories run in the long-lived worker processes (their caches are warm from the jobs before)
    hist.cases = SC.pmap(_hist_job, [(seed, i) for i in range(n_hist)])
    hist.cases += SC.pmap(_defect_hist_job, [(seed, i) for i in range(6 if tier == "quick" else 60)])
    hist.cases += SC.pmap(_alone_then_site_job, [(seed, i) for i in range(5 if tier == "quick" else 50)])
    # an unrelated site with more distinct recipes (170) than the compile cache holds (128), generated between two
    # generations of the same tree: ~5 s per case
    hist.cases += SC.gen_noise_history_cases(seed, 6 if tier == "quick" else 40)
    # regenerating INTO THE SAME OUTPUT DIRECTORY after a linked asset got other bytes of the same length (with and
    # without the old timestamps): must equal a from-scratch generation of the edited tree
    hist.cases += SC.gen_asset_history_cases(seed, 6 if tier == "quick" else 80, fresh=True)
    # ... and after recipes were edited so that pages get SHORTER (byte-for-byte equal to a fresh process)
    hist.cases += SC.gen_rebuild_history_cases(seed, 6 if tier == "quick" else 80, "C17")
    return [order, hist]


def replay(inp: Any) -> Case:
    return SC.replay_any(inp, "C17")


def known_match(finding: Any, case: Case) -> bool:
    return False
