"""C16 - local files are copied byte-exact and never taken from outside the source root."""
from __future__ import annotations

from typing import Any, List

from .. import site_common as SC
from ..api import Case, Suite

ID = "C16"
PROPS_FILE = "Props/C16.v"
GEN_DEPS: List[str] = []
ALLOWED_AXIOMS: List[str] = []
THEOREMS = {
    "C16_external_untouched": "full",
    "C16_external_untouched_ex": "example",
    "C16_asset_inside": "full",
    "C16_site_copies_inside": "full",
    "C16_site_copies_inside_ex": "example",
    "C16_outside_or_missing_errors": "full",
    "C16_outside_or_missing_errors_ex": "example",
    "C16_data_url": "full",
    "C16_data_url_ex": "example",
    "C16_base64_roundtrip": "full",
    "C16_nul_link_refuted": "refuted",
    "C16_symlink_loop_refuted": "refuted",
    "C16_unresolvable_aborts": "full",
    "C16_resolved_path_link_free": "full",
    "C16_asset_path_link_free": "full",
    "C16_asset_path_link_free_ex": "example",
}
TRUSTED = [
    "Coq 8.16.1 kernel (coqc; vm_compute for the correspondence and the concrete examples only)",
    "Model/Fs.v is taken to describe the operating system: Path.resolve() = posixpath.realpath's component walk + the "
    "ELOOP/NUL checks, os.stat/is_file/open on the resolved path, shutil.copyfile = write the bytes read, "
    "mimetypes.guess_type = the parameter e_mime; tied by the correspondence on real temporary trees with symbolic links",
    "Model/Url.v (quote, unquote, utf-8) and Model/Href.v are the C14 agent's models, tied by C14's own suites",
    "lxml parsing/serialisation of href/src values and Jinja rendering are NOT modelled: the model produces the list of "
    "attribute values, the harness reads them back from the generated HTML with html.parser",
    "correspondence harness: rgv/site_common.py (materialise, patched Path.iterdir for the listing order, html.parser "
    "reader, Gallina encoders), rgv/gen/sitegen.py",
]
ASSUMPTIONS = [
    "file names are valid UTF-8 without surrogates; Markdown files are UTF-8",
    "the output directory is outside the source root",
    "link URLs stay inside the modelled part of urlsplit (no bracketed / non-ASCII netloc)",
]
RULE = ("generated source trees (depth <= 4, fan-out <= 4, names with spaces, Unicode and # ? % & ' \" etc.), links "
        "spelled relative / with surplus .. / through the root's own name / root-absolute / percent-encoded (needed, "
        "gratuitous, lower-case) / raw Unicode, with query and fragment, through symbolic links (inside->inside valid, "
        "inside->outside must abort), planted faults of every documented error class, the stand-alone generator with and "
        "without embedding; a site case is non-trivial when it aborts or has more than 3 pages, a stand-alone case when "
        "it has links or aborts")


def suites(tier: str, seed: int) -> List[Suite]:
    site, alone, hist = SC.site_suite(), SC.alone_suite(), SC.history_suite()
    if tier == "replay":
        return [site, alone, hist]
    if tier == "quick":
        plan = [("valid", "small", 6), ("valid", "medium", 12), ("valid", "deep", 4), ("errors", "small", 10),
                ("errors", "medium", 10), ("f13", "small", 2), ("f15", "small", 2),
                ("link-sibling-rel", "small", 2), ("link-sibling-abs", "small", 1), ("link-sibling-encoded", "small", 1),
                ("link-sibling-symlink", "small", 2), ("link-sibling-dir-symlink", "medium", 1),
                ("link-casetwin-rel", "small", 2), ("link-casetwin-symlink", "small", 1)]
        na, ne = 40, 12
    else:
        plan = [("valid", "small", 150), ("valid", "medium", 500), ("valid", "deep", 150), ("errors", "small", 300),
                ("errors", "medium", 500), ("errors", "deep", 100), ("f13", "small", 20), ("f15", "small", 20),
                ("link-sibling-rel", "medium", 40), ("link-sibling-abs", "medium", 30), ("link-sibling-encoded", "medium", 30),
                ("link-sibling-symlink", "medium", 40), ("link-sibling-dir-symlink", "medium", 30),
                ("link-casetwin-rel", "medium", 40), ("link-casetwin-symlink", "medium", 30)]
        na, ne = 1500, 400
    site.cases = SC.gen_site_cases("C16", seed, plan)
    alone.cases = SC.gen_alone_cases(seed, na, ne)
    # regenerating INTO THE SAME OUTPUT DIRECTORY after a linked asset got other bytes of the same length (old
    # timestamps): the copy in the output must be the new bytes
    hist.cases = SC.gen_asset_history_cases(seed, 8 if tier == "quick" else 150)
    # several stand-alone pages in one process (a file embedded for a page whose root contains it must still be refused
    # for a page with a smaller root; a rewritten file shows its new bytes)
    hist.cases += SC.gen_alone_history_cases(seed, 8 if tier == "quick" else 100)
    return [site, alone, hist]


def replay(inp: Any) -> Case:
    return SC.replay_any(inp, "C16")


def known_match(finding: Any, case: Case) -> bool:
    m = finding.get("matches")
    inp = case.input
    err = case.impl.get("error") if isinstance(case.impl, dict) else None
    if m == "nul_link_valueerror":
        return inp["site"].get("fault") == "f13" and err == "ValueError" and (case.violation or "").startswith("f13")
    if m == "symlink_loop_runtimeerror":
        return inp["site"].get("fault") == "f15" and err == "RuntimeError" and (case.violation or "").startswith("f15")
    return False
