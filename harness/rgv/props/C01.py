"""C01 - see DESIGN.md section 5 (C01/C05/C08 share the compiler model)."""
from __future__ import annotations

from typing import Any, List

from ..api import Case, Suite
from .. import compile_common as CC

ID = "C01"
PROPS_FILE = "Props/C01.v"
PROPS_EXTRA = ["Props/C01inv.v", "Props/C01ref.v"]
GEN_DEPS = ["GenUnits"]
ALLOWED_AXIOMS: List[str] = []
THEOREMS = {
    "C01_pass1_refines_resolve": "full",
    "C01_rejects_exactly_documented": "full",
    "C01_accepts_iff_resolvable": "full",
    "C01_no_assert_crash": "full",
    "C01_fold_rule": "full",
    "C01_compiled_is_resolved_up_to_folding": "full",
    "C01_compile_refines_sym": "full", "C01_compile_refines_sym_inst": "full", "C01_sym_compile_total": "full",
    "C01_sym_fold_conserves_nodes": "full", "C01ref_example_result": "example",
    "C01inv_names_unique": "full", "C01inv_compile_ok": "full", "C01inv_example_valid": "example", "C01inv_example_keys": "example",
    "C01inv_crash_only_overflow": "full", "C01inv_never_crashes_structurally": "full", "C01inv_strictly_valid": "full",
    "C01inv_example_accepted": "example",
    "C01_fold_example": "example", "C01_named_fold_keeps_title": "example", "C01_two_uses_not_folded": "example",
    "C01_other_block_not_folded": "example", "C01_errors_example": "example",
}
TRUSTED = [
    "Coq 8.16.1 kernel (coqc; vm_compute for correspondence only)",
    "Model/Compiler.v is a hand-written model of recipe_grid/compiler.py on the parser's AST (values already evaluated); "
    "tied to the code by the correspondence suite 'compile' (abstract program -> printed source -> real compile(); object graph "
    "incl. number types, or error kind + position, compared inside Coq)",
    "Model/Recipe.v models recipe.py (dataclass ==, substitute, Recipe.__post_init__); Model/Units.v + Gen/GenUnits.v (regenerated) give convert_between",
    "the generator/printer harness/rgv/gen/programs.py (its print->parse contract is checked against the real parser by C06)",
    "str.lower modelled by a generated table; str.strip by CPython's isspace set",
]
ASSUMPTIONS = ["numbers of at most 15 significant digits; nesting depth <= 25 (interpreter recursion limit outside the model)"]
RULE = ("abstract recipe descriptions over a small shared name pool (so earlier/later/repeated/cross-block mentions are frequent): "
        "1-3 blocks, explicit/:=/inferred/multiple outputs, nesting to depth 7, every amount form, deliberately erroneous programs "
        "(redefinitions, proportions of unknown names); printed under random spelling; non-trivial = accepted with a reference or a "
        "fold, or rejected; distinct = distinct (program, sources)")


def suites(tier: str, seed: int) -> List[Suite]:
    su = CC.compile_suite(ID, tier, seed)
    return [su, CC.sym_suite(su.cases)]


def replay(inp: Any) -> Case:
    return CC.make_case(inp["program"], inp["sources"], ID)


def known_match(finding: Any, case: Case) -> bool:
    return False
