"""C08 - every compiled or scaled recipe is a well-formed backward-referencing DAG; constructors refuse
ill-formed combinations (recipe.py part; the compiler part is C01's model)."""
from __future__ import annotations

import multiprocessing
import os
import random
from fractions import Fraction
from typing import Any, Dict, Iterator, List, Optional, Tuple

from .. import coqio as c
from .. import ser
from ..api import Case, Suite

ID = "C08"
PROPS_FILE = "Props/C08.v"
PROPS_EXTRA = ["Props/C08e2e.v"]   # glue: compiled recipes and their scalings are strictly valid (Proofs/GlueValid.v)
GEN_DEPS: List[str] = []
ALLOWED_AXIOMS: List[str] = []
THEOREMS = {
    "C08_node_eqb_refl": "full",
    "C08_strict_implies_ok": "full",
    "C08_strict_readable": "full",
    "C08_constructed_everywhere": "full",
    "C08_scale_preserves": "full",
    "C08_scale_ok": "full",
    "C08_reference_refuses": "full",
    "C08_step_refuses": "full",
    "C08_subrecipe_refuses": "full",
    "C08_constructors_refuse": "full",
    "C08_recipe_accepts_iff": "full",
    "C08_recipe_refuses_iff": "full",
    "C08_refs_ok_iff": "full",
    "C08_following_terminates": "full",
    "C08_strict_ex": "example",
    "C08_refusals_ex": "example",
    "C08_compiled_valid": "full", "C08_compiled_scaled_valid": "full", "C08_compiled_scaled_accepted": "full", "C08_compiled_iter_scaled_valid": "full", "C08_source_valid": "full", "C08_source_scaled_valid": "full", "C08_source_iter_scaled_valid": "full", "C08e2e_hyps": "example", "C08e2e_instance": "example",
}
TRUSTED = [
    "Coq 8.16.1 kernel (coqc, vm_compute for correspondence only)",
    "model Model/Recipe.v of recipe_grid/recipe.py (node constructors' __post_init__, Recipe.__post_init__ over the "
    "'follows' chain, the scale methods) and of scaled_value_string.py; tied by suite 'valid'",
    "Base/Num.v: Python int/Fraction/float arithmetic with one explicit binary64 rounding per float operation",
    "Python set membership of frozen dataclasses = first element equal under == (hash consistent with ==)",
    "correspondence harness: rgv/props/C08.py generators, rgv/ser.py serialiser, in-Coq structural comparison",
    "that compile() output satisfies strictly_valid is the compiler model's theorem (C01/C08_compile_strictly_valid)",
]
ASSUMPTIONS = ["output indices are >= 0 (as the property's quantifier says)",
               "scaled numbers stay within binary64 range (float overflow to inf is outside the model)"]
RULE = ("(a) recipes compiled from generated programs (gen/programs.py: multi-block, references, multi-output, folded "
        "sub recipes) plus hand-written ones, each with 2 scale factors (ints, Fractions, floats): model recipe_ok and "
        "scale_blocks compared structurally with [r.scale(k) for r in recipes]; (b) directly attempted constructions of "
        "Step / Reference / SubRecipe from valid children (wrong index, zero outputs, multi-output child) and of Recipe "
        "chains (reference before / without / in a later block than its definition, to a nested non-root, to a copy "
        "differing by one number, to a numerically equal copy, nested inside sub recipe bodies and embedded sub "
        "recipes; mutated compiled recipes); (c) scaling of hand-built recipes whose references embed ==-but-not-"
        "identical copies.  Non-trivial: a scale case with at least one reference, every construction case")

ERRS = {
    "MultiOutputSubRecipeUsedAsNonRootNodeError": "MultiOutputSubRecipeUsedAsNonRootNode",
    "OutputIndexError": "OutputIndexError",
    "ZeroOutputSubRecipeError": "ZeroOutputSubRecipe",
    "ReferenceToInvalidSubRecipeError": "ReferenceToInvalidSubRecipe",
}

IMPORTS = ["From RG Require Import Model.Recipe Proofs.RecipeCorr."]


# ---------------------------------------------------------------- JSON -> Gallina (no Python objects needed)

def jsvs(j: Any) -> str:
    return c.lst([f"PStr {c.string(p)}" if isinstance(p, str) else f"PNum {c.num(c.num_unjson(p))}" for p in j], "part")


def jamount(j: Any) -> str:
    if "q" in j:
        v, u, sp, pr = j["q"]
        return (f"(AQty (mkQ {c.num(c.num_unjson(v))} {c.opt(c.string(u) if u is not None else None, 'str')} "
                f"{c.string(sp)} {c.string(pr)}))")
    v, pc, w, pr = j["p"]
    if v is None:
        return f"(AProp (PropRem {c.string(w)} {c.string(pr)}))"
    return f"(AProp (PropVal {c.num(c.num_unjson(v))} {c.boolean(bool(pc))} {c.string(pr)}))"


def jnode(j: Any) -> str:
    if "I" in j:
        d, q = j["I"]
        qq = None
        if q is not None:
            v, u, sp, pr = q["q"]
            qq = (f"(mkQ {c.num(c.num_unjson(v))} {c.opt(c.string(u) if u is not None else None, 'str')} "
                  f"{c.string(sp)} {c.string(pr)})")
        return f"(Ingredient {jsvs(d)} {c.opt(qq, 'quantity')})"
    if "S" in j:
        d, ins = j["S"]
        return f"(Step {jsvs(d)} {c.lst([jnode(i) for i in ins], 'node')})"
    if "R" in j:
        sr, i, a = j["R"]
        return f"(Reference {jnode(sr)} {c.nat(i)} {jamount(a)})"
    b, ns, sh = j["SR"]
    return f"(SubRecipe {jnode(b)} {c.lst([jsvs(n) for n in ns], 'svs')} {c.boolean(sh)})"


def jblocks(bs: Any) -> str:
    return c.lst([c.lst([jnode(t) for t in b], "node") for b in bs], "(list node)")


def coq_blocks_opt(recipes: Optional[List[Any]]) -> str:
    return c.opt(ser.blocks(recipes) if recipes is not None else None, "blocks")


# ---------------------------------------------------------------- implementation side

def _compile_job(texts: List[str]) -> Tuple[str, Any]:
    from recipe_grid.compiler import compile as rg_compile, RecipeCompileError
    try:
        return ("ok", rg_compile(texts))
    except RecipeCompileError as e:
        return ("err", type(e).__name__)


def compile_many(all_texts: List[List[str]], workers: int = 8) -> List[Tuple[str, Any]]:
    """compile() is slow (PEG parser, ~50 ms per program): fan out; results are deterministic."""
    if len(all_texts) < 40:
        return [_compile_job(t) for t in all_texts]
    ctx = multiprocessing.get_context("fork")
    with ctx.Pool(min(workers, os.cpu_count() or 1)) as pool:
        return pool.map(_compile_job, all_texts, chunksize=8)


HAND_SOURCES: List[List[str]] = [
    ["300g spam\n2 eggs\nfry(1/2 of spam, eggs)\nboil(remaining spam)"],
    ["sauce = 300g tomatoes, boil\nfry(1/3 of sauce)\nbake(100g sauce, remaining sauce)"],
    ["veg, water = boil(2 carrots, 1l water)\ngravy := mix(water, 10g granules)\npour(gravy, veg)"],
    ["1 can spam\na := fry(1/2 of spam)\nb := boil(remaining spam)\nmix(a, b)"],
    ["1 can spam\nsauce = fry(spam)", "serve(sauce, 1/2 of spam)"],
    ["dough = mix(500g flour, 300ml water)\n", "base := roll(1/2 of dough)\n", "bake(base, 50% of dough)"],
    ["x {2} pieces = chop(1.5 kg onion)\nfry(0.5 * x {2} pieces)\nboil(rest of the x {2.0} pieces)"],
    ["a = 2 eggs\nb = fry(a)\nc := boil(b)\nserve(c)"],
    ["p, q, r = split(1 kg rice)\nmix(p, q)", "fry(r, 1/2 of p)"],
    ['"10cm tin" = grease(1 mould, 5g butter)\nfill("10cm tin", 300g "type 00 flour", cut into {8} pieces of 12cm)'],
    ["mix 1 = whisk(2 eggs)\nmix 2 = stir(1/2 of mix 1, 3 eggs no 7)\nbake at 180(mix 2, 1/2 of mix 1)"],
]


def gen_factor(rng: random.Random) -> Any:
    k = rng.random()
    if k < 0.35:
        return rng.choice([1, 2, 3, 4, 10, 7])
    if k < 0.7:
        return rng.choice([Fraction(1, 2), Fraction(1, 3), Fraction(2, 3), Fraction(3, 2), Fraction(5, 4), Fraction(7, 3),
                           Fraction(2, 1), Fraction(1, 1), Fraction(1, 10)])
    return rng.choice([0.5, 1.5, 0.25, 0.1, 2.25, 1.0, 3.3, 0.75, 1e-3])


def compiled_corpus(rng: random.Random, n: int) -> List[Tuple[List[str], List[Any]]]:
    """n generated programs (plus the hand-written ones) -> [(sources, recipes)] for the accepted ones."""
    from ..gen.programs import gen_program, spell
    texts: List[List[str]] = [list(t) for t in HAND_SOURCES]
    for _ in range(n):
        prog = gen_program(rng)
        texts.append(spell(prog, rng))
    out = []
    for t, (st, val) in zip(texts, compile_many(texts)):
        if st == "ok":
            out.append((t, val))
    return out


def iter_all(t: Any) -> Iterator[Any]:
    """Every node inside t, entering sub recipe bodies and the sub recipes embedded in references."""
    import recipe_grid.recipe as R
    stack = [t]
    while stack:
        n = stack.pop()
        yield n
        if isinstance(n, R.Step):
            stack.extend(n.inputs)
        elif isinstance(n, R.Reference):
            stack.append(n.sub_recipe)
        elif isinstance(n, R.SubRecipe):
            stack.append(n.sub_tree)


def iter_definitions(t: Any) -> Iterator[Any]:
    """Nodes of t without entering references."""
    import recipe_grid.recipe as R
    stack = [t]
    while stack:
        n = stack.pop()
        yield n
        if isinstance(n, R.Step):
            stack.extend(n.inputs)
        elif isinstance(n, R.SubRecipe):
            stack.append(n.sub_tree)


def has_reference(recipes: List[Any]) -> bool:
    import recipe_grid.recipe as R
    return any(isinstance(n, R.Reference) for r in recipes for t in r.recipe_trees for n in iter_all(t))


def strict_violation(recipes: List[Any], names: bool = True) -> Optional[str]:
    """The property text, on an object graph: every reference -> an existing output of an EARLIER ROOT sub recipe
    (== and identical rendering), multi-output sub recipes only at roots, >= 1 output, names unique ignoring case,
    'follows' chain consistent."""
    import recipe_grid.recipe as R
    earlier: List[Any] = []
    seen_names: Dict[Any, str] = {}
    for b, r in enumerate(recipes):
        if b == 0:
            if r.follows is not None:
                return "first block follows something"
        elif r.follows != recipes[b - 1] or repr(r.follows) != repr(recipes[b - 1]):
            return f"block {b} does not follow block {b - 1}"
        for j, t in enumerate(r.recipe_trees):
            for n in iter_all(t):
                if isinstance(n, R.Reference):
                    sr = n.sub_recipe
                    if not isinstance(sr, R.SubRecipe):
                        return f"block {b} tree {j}: reference to a non sub recipe"
                    if not any(sr == e for e in earlier):
                        return f"block {b} tree {j}: reference to {sr.output_names} which is no earlier root"
                    if not any(sr == e and repr(sr) == repr(e) for e in earlier):
                        return f"block {b} tree {j}: embedded copy of {sr.output_names} renders differently from the root"
                    if not (0 <= n.output_index < len(sr.output_names)):
                        return f"block {b} tree {j}: output index {n.output_index} out of range"
                if isinstance(n, R.SubRecipe) and len(n.output_names) == 0:
                    return f"block {b} tree {j}: sub recipe without outputs"
                if isinstance(n, R.Step):
                    for i in n.inputs:
                        if isinstance(i, R.SubRecipe) and len(i.output_names) > 1:
                            return f"block {b} tree {j}: multi-output sub recipe as a step input"
                if isinstance(n, R.SubRecipe) and isinstance(n.sub_tree, R.SubRecipe) and len(n.sub_tree.output_names) > 1:
                    return f"block {b} tree {j}: multi-output sub recipe as a sub recipe body"
            if names:
                for n in iter_definitions(t):
                    if isinstance(n, R.SubRecipe):
                        for nm in n.output_names:
                            key = name_key(nm)
                            if key in seen_names:
                                return f"output name {str(nm)!r} defined twice (ignoring case)"
                            seen_names[key] = str(nm)
            if isinstance(t, R.SubRecipe):
                earlier.append(t)
    return None


def name_key(nm: Any) -> Tuple[Any, ...]:
    """An output name ignoring letter case and surrounding blanks - computed here, NOT with the compiler's own
    normalise_output_name / ScaledValueString.lower (the oracle must not inherit their mistakes): every text part
    lower-cased with str.lower, blanks stripped at both ends, numbers compared by value."""
    parts = list(nm._string)
    if parts and isinstance(parts[0], str):
        parts[0] = parts[0].lstrip()
    if parts and isinstance(parts[-1], str):
        parts[-1] = parts[-1].rstrip()
    return tuple(p.lower() if isinstance(p, str) else ("num", p) for p in parts if p != "")


def names_exact(recipes: List[Any]) -> bool:
    import recipe_grid.recipe as R
    for r in recipes:
        for t in r.recipe_trees:
            for n in iter_definitions(t):
                if isinstance(n, R.SubRecipe):
                    for nm in n.output_names:
                        if any(isinstance(p, float) for p in nm._string):
                            return False
    return True


def scale_impl(recipes: List[Any], k: Any) -> Tuple[str, Any]:
    import recipe_grid.recipe as R
    try:
        return ("ok", [r.scale(k) for r in recipes])
    except R.RecipeInvariantError as e:
        return ("err", type(e).__name__)


def scale_case(inp: Any, recipes: List[Any], k: Any, strict: bool) -> Case:
    st, val = scale_impl(recipes, k)
    viol = None
    if strict:
        viol = strict_violation(recipes)
        if viol is not None:
            viol = "compiled recipe: " + viol
        elif st != "ok":
            viol = f"scaling by {k!r} raised {val}"
        else:
            exact = not isinstance(k, float) and k > 0 and names_exact(recipes)
            viol = strict_violation(val, names=exact)
            if viol is not None:
                viol = f"scaled by {k!r}: " + viol
    out = f"(OScaled {coq_blocks_opt(val if st == 'ok' else None)})"
    nref = has_reference(recipes)
    tags = ["scale", "factor-" + type(k).__name__, f"blocks-{min(len(recipes), 3)}",
            "with-references" if nref else "no-references"]
    if not strict:
        tags.append("hand-built")
    return Case(input=inp, coq_in=f"(VScale {c.num(k)} {ser.blocks(recipes)})", coq_out=out,
                impl=("scaled ok" if st == "ok" else val), violation=viol, nontrivial=nref, tags=tags)


# ---- attempted constructions

def attempt_node(j: Any) -> str:
    """Build the children (valid by construction), then try the top constructor."""
    import recipe_grid.recipe as R
    try:
        if "S" in j:
            d, ins = j["S"]
            R.Step(ser.svs_unjson(d), tuple(ser.node_unjson(i) for i in ins))
        elif "R" in j:
            sr, i, a = j["R"]
            R.Reference(ser.node_unjson(sr), i, ser.amount_unjson(a))
        elif "SR" in j:
            b, ns, sh = j["SR"]
            R.SubRecipe(ser.node_unjson(b), tuple(ser.svs_unjson(n) for n in ns), sh)
        else:
            ser.node_unjson(j)
        return "ok"
    except R.RecipeInvariantError as e:
        return type(e).__name__


def is_multi(j: Any) -> bool:
    return "SR" in j and len(j["SR"][1]) > 1


def expected_node(j: Any) -> List[str]:
    """The documented refusal for one constructor call (several answers when two rules are broken at once)."""
    if "S" in j:
        return ["MultiOutputSubRecipeUsedAsNonRootNodeError"] if any(is_multi(i) for i in j["S"][1]) else ["ok"]
    if "R" in j:
        sr, i, _ = j["R"]
        return ["OutputIndexError"] if i >= len(sr["SR"][1]) else ["ok"]
    if "SR" in j:
        b, ns, _ = j["SR"]
        bad = []
        if is_multi(b):
            bad.append("MultiOutputSubRecipeUsedAsNonRootNodeError")
        if len(ns) == 0:
            bad.append("ZeroOutputSubRecipeError")
        return bad or ["ok"]
    return ["ok"]


def node_case(j: Any, tag: str) -> Case:
    got = attempt_node(j)
    exp = expected_node(j)
    viol = None if got in exp else f"constructor outcome {got}, documented {' or '.join(exp)}"
    out = f"(OVerdict {c.opt(ERRS[got] if got != 'ok' else None, 'invariant_error')})"
    kind = "Step" if "S" in j else "Reference" if "R" in j else "SubRecipe"
    return Case(input={"kind": "node", "node": j}, coq_in=f"(VNode {jnode(j)})", coq_out=out, impl=got, violation=viol,
                nontrivial=True, tags=["construct-" + kind, "node-" + ("refused" if got != "ok" else "accepted"), tag])


def attempt_recipe(bs: Any) -> str:
    import recipe_grid.recipe as R
    blocks = [[ser.node_unjson(t) for t in b] for b in bs]
    prev = None
    try:
        for trees in blocks:
            prev = R.Recipe(tuple(trees), prev)
        return "ok"
    except R.RecipeInvariantError as e:
        return type(e).__name__


def json_eq(a: Any, b: Any) -> bool:
    """Dataclass == as the documentation describes it, decided field by field on the JSON form (independent of the
    project's own __eq__ / __hash__): same class, every field equal, numbers compared by value across int / Fraction /
    float, everything else (texts, units, flags, indices) exactly."""
    if isinstance(a, dict) and isinstance(b, dict):
        if set(a) & {"int", "frac", "float"} and set(b) & {"int", "frac", "float"}:
            return c.num_unjson(a) == c.num_unjson(b)
        return set(a) == set(b) and all(json_eq(a[k], b[k]) for k in a)
    if isinstance(a, list) and isinstance(b, list):
        return len(a) == len(b) and all(json_eq(x, y) for x, y in zip(a, b))
    if isinstance(a, bool) or isinstance(b, bool):
        return isinstance(a, bool) and isinstance(b, bool) and a == b
    return type(a) is type(b) and a == b


def json_iter_all(j: Any) -> Iterator[Any]:
    """Every node (JSON form) inside j, entering sub recipe bodies and the sub recipes embedded in references."""
    stack = [j]
    while stack:
        n = stack.pop()
        yield n
        if "S" in n:
            stack.extend(n["S"][1])
        elif "R" in n:
            stack.append(n["R"][0])
        elif "SR" in n:
            stack.append(n["SR"][0])


def expected_recipe(bs: Any) -> str:
    """Refused iff some reference anywhere does not embed a value equal (field by field) to a sub recipe that is the
    ROOT of an earlier tree of the same block or of a tree of an earlier block."""
    earlier: List[Any] = []
    for trees in bs:
        for t in trees:
            for n in json_iter_all(t):
                if "R" in n and not any(json_eq(n["R"][0], e) for e in earlier):
                    return "ReferenceToInvalidSubRecipeError"
            if "SR" in t:
                earlier.append(t)
    return "ok"


def recipe_case(bs: Any, tag: str) -> Case:
    got = attempt_recipe(bs)
    exp = expected_recipe(bs)
    viol = None if got == exp else f"Recipe construction outcome {got}, documented {exp}"
    out = f"(OVerdict {c.opt(ERRS[got] if got != 'ok' else None, 'invariant_error')})"
    return Case(input={"kind": "recipe", "blocks": bs}, coq_in=f"(VRecipe {jblocks(bs)})", coq_out=out, impl=got,
                violation=viol, nontrivial=True,
                tags=["construct-Recipe", "recipe-" + ("refused" if got != "ok" else "accepted"), tag])


def fork_path(steps: Any, i: int) -> Any:
    """The blocks of the 'follows' chain of step i, oldest first."""
    path = []
    while i is not None:
        path.append(steps[i]["trees"])
        i = steps[i]["follows"]
    return list(reversed(path))


def attempt_fork(steps: Any) -> str:
    """Construct the Recipe objects in the given ORDER in this one call (each follows an earlier one of the list, or
    nothing); the outcome is that of the LAST construction ("early:<error>" if an earlier one was refused)."""
    import recipe_grid.recipe as R
    objs: List[Any] = []
    for i, stp in enumerate(steps):
        trees = tuple(ser.node_unjson(t) for t in stp["trees"])
        try:
            objs.append(R.Recipe(trees, objs[stp["follows"]] if stp["follows"] is not None else None))
        except R.RecipeInvariantError as e:
            return type(e).__name__ if i == len(steps) - 1 else "early:" + type(e).__name__
    return "ok"


def fork_case(steps: Any, tag: str) -> Case:
    """Recipes that follow the SAME earlier Recipe object, or a new follower of an inner block of an already built
    chain: each construction sees only the roots of its own 'follows' chain, whatever was constructed before."""
    for i in range(len(steps) - 1):
        if expected_recipe(fork_path(steps, i)) != "ok":
            raise AssertionError("fork scenario: an earlier construction is itself invalid")
    bs = fork_path(steps, len(steps) - 1)
    got = attempt_fork(steps)
    exp = expected_recipe(bs)
    viol = None if got == exp else (f"after constructing {len(steps) - 1} other recipes in this process, Recipe construction "
                                    f"outcome {got}, documented {exp}")
    err = got if got in ERRS or got == "ok" else "ReferenceToInvalidSubRecipeError"
    out = f"(OVerdict {c.opt(ERRS[err] if err != 'ok' else None, 'invariant_error')})"
    return Case(input={"kind": "fork", "steps": steps}, coq_in=f"(VRecipe {jblocks(bs)})", coq_out=out, impl=got,
                violation=viol, nontrivial=True,
                tags=["construct-Recipe", "construct-fork", "recipe-" + ("refused" if got != "ok" else "accepted"), tag])


def gen_fork_cases(rng: random.Random, n: int) -> List[Case]:
    out: List[Case] = []
    for _ in range(n):
        a = g_sub(rng, rng.choice([1, 2]), [])
        r1 = g_sub(rng, rng.choice([1, 1, 2]), [])
        r2 = g_sub(rng, 1, [])
        use = lambda sr: {"S": [g_svs(rng), [{"R": [sr, 0, g_amount(rng)]}, g_ing(rng)]]}   # noqa: E731
        base = {"trees": [a, g_ing(rng)], "follows": None}
        scen = rng.choice(["sibling-root", "sibling-root", "later-block-root", "later-block-root", "inner-follower",
                           "fork-valid", "fork-valid-own-root"])
        if scen == "sibling-root":          # A and B both follow base; B refers to A's root
            steps = [base, {"trees": [r1, use(r1)], "follows": 0}, {"trees": [use(r1), use(a)], "follows": 0}]
        elif scen == "later-block-root":    # base <- c1 <- c2 built first; then another follower of base uses c2's root
            steps = [base, {"trees": [r1], "follows": 0}, {"trees": [r2, use(r1)], "follows": 1},
                     {"trees": [use(rng.choice([r2, r1]))], "follows": 0}]
        elif scen == "inner-follower":      # ... or a new follower of c1 uses c2's root
            steps = [base, {"trees": [r1], "follows": 0}, {"trees": [r2, use(r2)], "follows": 1},
                     {"trees": [use(r1), use(r2)], "follows": 1}]
        elif scen == "fork-valid":          # control: the second follower only uses base's root
            steps = [base, {"trees": [r1, use(r1)], "follows": 0}, {"trees": [use(a)], "follows": 0}]
        else:                               # control: both followers define the same root themselves
            steps = [base, {"trees": [r1, use(r1)], "follows": 0}, {"trees": [r1, use(r1), use(a)], "follows": 0}]
        out.append(fork_case(steps, scen))
    return out


# ---------------------------------------------------------------- generators of constructions (as JSON)

NAMES = ["spam", "eggs", "sauce", "veg", "water", "Dough", "x", "é ü", "2 eggs", "tin 10cm", "7"]


def g_num(rng: random.Random) -> Any:
    return rng.choice([1, 2, 300, 0, Fraction(1, 2), Fraction(7, 3), Fraction(4, 1), 0.5, 2.0, 300.0, 0.1, 1e-3, 12345])


def g_svs(rng: random.Random) -> Any:
    k = rng.random()
    if k < 0.7:
        return [rng.choice(NAMES)]
    if k < 0.9:
        return [rng.choice(NAMES) + " ", c.num_json(g_num(rng)), " pieces"]
    return [c.num_json(g_num(rng))]


def g_qty(rng: random.Random) -> Any:
    u = rng.choice([None, "g", "kg", "Cups", "handful"])
    return {"q": [c.num_json(g_num(rng)), u, rng.choice(["", " "]) if u else "", rng.choice(["", " of"])]}


def g_amount(rng: random.Random) -> Any:
    k = rng.random()
    if k < 0.3:
        return g_qty(rng)
    if k < 0.5:
        return {"p": [None, None, rng.choice(["remaining", "rest"]), rng.choice(["", " of the"])]}
    if k < 0.7:
        return {"p": [c.num_json(1.0), False, None, ""]}
    return {"p": [c.num_json(rng.choice([Fraction(1, 2), 0.25, 1, Fraction(1, 3)])), rng.random() < 0.3, None, " of"]}


def g_ing(rng: random.Random) -> Any:
    return {"I": [g_svs(rng), g_qty(rng) if rng.random() < 0.6 else None]}


def g_tree(rng: random.Random, depth: int, refs: List[Any]) -> Any:
    """A valid child tree (no multi-output sub recipe inside); references only to members of [refs]."""
    k = rng.random()
    if depth <= 0 or k < 0.35:
        if refs and rng.random() < 0.5:
            sr = rng.choice(refs)
            return {"R": [sr, rng.randrange(len(sr["SR"][1])), g_amount(rng)]}
        return g_ing(rng)
    if k < 0.8:
        return {"S": [g_svs(rng), [g_tree(rng, depth - 1, refs) for _ in range(rng.choice([1, 1, 2, 3]))]]}
    return {"SR": [g_tree(rng, depth - 1, refs), [g_svs(rng)], rng.random() < 0.7]}


def g_sub(rng: random.Random, nout: int, refs: List[Any]) -> Any:
    return {"SR": [g_tree(rng, rng.choice([0, 1, 2]), refs), [[f"out{i} " + rng.choice(NAMES)] for i in range(nout)],
                   rng.random() < 0.7]}


def bump(j: Any) -> Optional[Any]:
    """A copy differing in exactly one number (first number found), or None."""
    import copy
    j2 = copy.deepcopy(j)

    def walk(n: Any) -> bool:
        if "I" in n:
            d, q = n["I"]
            if q is not None:
                q["q"][0] = c.num_json(c.num_unjson(q["q"][0]) + 1)
                return True
            for i, p in enumerate(d):
                if not isinstance(p, str):
                    d[i] = c.num_json(c.num_unjson(p) + 1)
                    return True
            return False
        if "S" in n:
            return any(walk(i) for i in n["S"][1])
        if "R" in n:
            return walk(n["R"][0])
        return walk(n["SR"][0])
    return j2 if walk(j2) else None


def retype(j: Any) -> Optional[Any]:
    """A copy with the first int replaced by the equal float (== but not identical), or None."""
    import copy
    j2 = copy.deepcopy(j)

    def conv(x: Any) -> Optional[Any]:
        v = c.num_unjson(x)
        if isinstance(v, int):
            return c.num_json(float(v))
        if isinstance(v, Fraction) and v.denominator == 1:
            return c.num_json(int(v))
        return None

    def walk(n: Any) -> bool:
        if "I" in n:
            d, q = n["I"]
            if q is not None:
                r = conv(q["q"][0])
                if r is not None:
                    q["q"][0] = r
                    return True
            for i, p in enumerate(d):
                if not isinstance(p, str):
                    r = conv(p)
                    if r is not None:
                        d[i] = r
                        return True
            return False
        if "S" in n:
            return any(walk(i) for i in n["S"][1])
        if "R" in n:
            return walk(n["R"][0])
        return walk(n["SR"][0])
    return j2 if walk(j2) else None


def gen_node_cases(rng: random.Random, n: int) -> List[Case]:
    out: List[Case] = []
    for _ in range(n):
        roots = [g_sub(rng, rng.choice([1, 1, 2, 3]), []) for _ in range(2)]
        k = rng.random()
        if k < 0.35:
            kids = [g_tree(rng, 2, roots) for _ in range(rng.choice([0, 1, 2, 3]))]
            if rng.random() < 0.5:
                kids.insert(rng.randrange(len(kids) + 1), g_sub(rng, rng.choice([1, 2, 3]), roots))
            out.append(node_case({"S": [g_svs(rng), kids]}, "step"))
        elif k < 0.7:
            sr = g_sub(rng, rng.choice([1, 2, 3]), roots)
            nn = len(sr["SR"][1])
            idx = rng.choice([0, nn - 1, nn, nn + 1, rng.randrange(0, nn + 3)])
            out.append(node_case({"R": [sr, idx, g_amount(rng)]}, "reference"))
        else:
            body = g_sub(rng, rng.choice([1, 2, 3]), roots) if rng.random() < 0.5 else g_tree(rng, 2, roots)
            names = [g_svs(rng) for _ in range(rng.choice([0, 0, 1, 2, 3]))]
            out.append(node_case({"SR": [body, names, rng.random() < 0.5]}, "subrecipe"))
    return out


def gen_recipe_cases(rng: random.Random, n: int) -> List[Case]:
    out: List[Case] = []
    for _ in range(n):
        a = g_sub(rng, rng.choice([1, 1, 2]), [])
        b = g_sub(rng, rng.choice([1, 2, 3]), [a] if rng.random() < 0.6 else [])     # b may refer to a
        user = {"S": [g_svs(rng), [g_tree(rng, 2, [a, b]), {"R": [b, 0, g_amount(rng)]}]]}
        wrapped = {"SR": [{"S": [g_svs(rng), [{"R": [a, 0, g_amount(rng)]}]]}, [["wrapped"]], True]}
        scen = rng.choice(["valid", "valid-split", "use-first", "def-later-block", "missing-root", "nested-not-root",
                           "bumped", "retyped", "in-body", "in-embedded", "shuffle", "valid-three-blocks",
                           "flag-flipped", "flag-flipped", "nested-earlier-block", "nested-earlier-block",
                           "hash-collision", "hash-collision", "empty-block-between", "empty-block-between"])
        if scen == "valid":
            bs = [[a, b, user, wrapped]]
        elif scen == "valid-split":
            bs = [[a], [b], [user, wrapped]]
        elif scen == "valid-three-blocks":
            bs = [[a, g_ing(rng)], [b, g_tree(rng, 2, [a])], [wrapped, user]]
        elif scen == "use-first":
            bs = [[user, a, b]]
        elif scen == "def-later-block":
            bs = [[a], [user], [b]]
        elif scen == "missing-root":
            bs = [[b, user]] if rng.random() < 0.5 else [[a, user]]
        elif scen == "nested-not-root":
            # a occurs only nested inside a step of an earlier tree (single output only: it must be a legal child)
            a1 = g_sub(rng, 1, [])
            bs = [[{"S": [g_svs(rng), [a1, g_ing(rng)]]}, {"S": [g_svs(rng), [{"R": [a1, 0, g_amount(rng)]}]]}]]
        elif scen == "flag-flipped":
            # the references embed a copy of the root that differs ONLY in show_output_names (either direction);
            # same block, the following block, or two blocks later
            import copy
            a1 = g_sub(rng, rng.choice([1, 1, 2]), [])
            a2 = copy.deepcopy(a1)
            a2["SR"][2] = not a1["SR"][2]
            use = {"S": [g_svs(rng), [{"R": [a2, rng.randrange(len(a2["SR"][1])), g_amount(rng)]}, g_ing(rng)]]}
            if rng.random() < 0.3:
                use = {"SR": [use, [["flagged use"]], True]}
            bs = rng.choice([[[a1, use]], [[a1], [use]], [[a1], [g_ing(rng)], [use]], [[a1, g_ing(rng)], [g_tree(rng, 1, [a1])], [use]]])
        elif scen == "empty-block-between":
            # blocks with ZERO trees anywhere in the 'follows' chain change nothing: valid backward references across
            # them are accepted (and invalid ones still refused)
            bs = rng.choice([[[a], [], [{"S": [g_svs(rng), [{"R": [a, 0, g_amount(rng)]}]]}]],
                             [[], [a, b], [], [], [user, wrapped]],
                             [[a], [], [b], [], [user]],
                             [[], [], [a, g_ing(rng)], [], [wrapped]],
                             [[a], [], [], [wrapped]],
                             [[], [a], [], [user]]])     # user refers to b as well, which is nowhere: refused
        elif scen == "hash-collision":
            # the reference embeds a copy that differs from the root in ONE number x -> x + (2**61 - 1): CPython gives
            # both the same hash (0 / 2**61-1, 1 / 2**61, 1/2 / 1/2 + 2**61-1 ...), but they are different values
            import copy
            M = 2 ** 61 - 1
            x = rng.choice([0, 1, 5, 300, Fraction(1, 2), Fraction(7, 3), Fraction(2, 1)])
            where = rng.choice(["quantity", "name", "output-name"])
            ing = {"I": [["thing"] if where != "name" else ["thing ", c.num_json(x)],
                         {"q": [c.num_json(x if where == "quantity" else 2), rng.choice([None, "g"]), "", ""]}]}
            names = [["out ", c.num_json(x)]] if where == "output-name" else [["out"]]
            a1 = {"SR": [ing if rng.random() < 0.6 else {"S": [g_svs(rng), [ing]]}, names, rng.random() < 0.7]}
            a2 = copy.deepcopy(a1)

            def shift(n: Any) -> None:
                if "I" in n:
                    if where == "quantity":
                        n["I"][1]["q"][0] = c.num_json(x + M)
                    elif where == "name":
                        n["I"][0][1] = c.num_json(x + M)
                elif "S" in n:
                    for i in n["S"][1]:
                        shift(i)
            if where == "output-name":
                a2["SR"][1][0][1] = c.num_json(x + M)
            else:
                shift(a2["SR"][0])
            root, copy_ = (a1, a2) if rng.random() < 0.5 else (a2, a1)
            use = {"S": [g_svs(rng), [{"R": [copy_, 0, g_amount(rng)]}, g_ing(rng)]]}
            bs = rng.choice([[[root, use]], [[root], [use]], [[root], [g_ing(rng)], [use]]])
        elif scen == "nested-earlier-block":
            # a single-output sub recipe nested (depth 1-2) inside a step of an EARLIER block is no legal target
            a1 = g_sub(rng, 1, [])
            inner = {"S": [g_svs(rng), [a1, g_ing(rng)]]}
            if rng.random() < 0.5:
                inner = {"S": [g_svs(rng), [g_ing(rng), inner]]}
            if rng.random() < 0.3:
                inner = {"SR": [inner, [["holder"]], True]}          # nested inside a root sub recipe's body
            use = {"S": [g_svs(rng), [{"R": [a1, 0, g_amount(rng)]}]]}
            bs = rng.choice([[[inner], [use]], [[inner], [g_ing(rng)], [use]], [[g_ing(rng), inner], [use, g_ing(rng)]],
                             [[inner], [g_sub(rng, 2, [])], [use]]])
        elif scen == "bumped":
            a2 = bump(a)
            bs = [[a2 if a2 is not None else a, b, user, wrapped]]
        elif scen == "retyped":
            a2 = retype(a)
            bs = [[a2 if a2 is not None else a, b, user, wrapped]]
        elif scen == "in-body":
            # a root sub recipe whose body refers to something that is / is not an earlier root
            bs = [[wrapped, a]] if rng.random() < 0.5 else [[a, wrapped]]
        elif scen == "in-embedded":
            # b's body refers to a; a reference to b embeds that reference: a must be an earlier root too
            b2 = {"SR": [{"S": [g_svs(rng), [{"R": [a, 0, g_amount(rng)]}]]}, [["outer"]], True]}
            use = {"S": [g_svs(rng), [{"R": [b2, 0, g_amount(rng)]}]]}
            bs = rng.choice([[[a, b2, use]], [[a], [b2], [use]], [[b2, a, use]], [[a, use, b2]]])
        else:
            trees = [a, b, user, wrapped, g_ing(rng)]
            rng.shuffle(trees)
            cut = rng.randrange(0, len(trees) + 1)
            bs = [trees[:cut], trees[cut:]]
        out.append(recipe_case(bs, scen))
    return out


def mutate_compiled(rng: random.Random, recipes: List[Any]) -> Any:
    """Permute / drop / re-split the trees of a compiled recipe."""
    trees = [ser.node_json(t) for r in recipes for t in r.recipe_trees]
    k = rng.random()
    if k < 0.4 and len(trees) > 1:
        i, j = rng.sample(range(len(trees)), 2)
        trees[i], trees[j] = trees[j], trees[i]
    elif k < 0.7 and trees:
        del trees[rng.randrange(len(trees))]
    cut = rng.randrange(0, len(trees) + 1)
    return [trees[:cut], trees[cut:]]


def built_scale_cases(rng: random.Random, n: int) -> List[Case]:
    """Scaling of hand-built recipes whose references embed ==-but-not-identical copies."""
    import recipe_grid.recipe as R
    out: List[Case] = []
    tries = 0
    while len(out) < n and tries < 20 * n:
        tries += 1
        a = g_sub(rng, 1, [])
        a2 = retype(a)
        if a2 is None:
            continue
        use = {"S": [g_svs(rng), [{"R": [a2, 0, g_amount(rng)]}, g_ing(rng)]]}
        bs = rng.choice([[[a, use]], [[a], [use]]])
        if attempt_recipe(bs) != "ok":
            continue
        prev = None
        recipes = []
        for b in bs:
            prev = R.Recipe(tuple(ser.node_unjson(t) for t in b), prev)
            recipes.append(prev)
        k = gen_factor(rng)
        out.append(scale_case({"kind": "scale_blocks", "blocks": bs, "k": c.num_json(k)}, recipes, k, strict=False))
    return out


# ---------------------------------------------------------------- driver interface

def mk_suite() -> Suite:
    return Suite(name="valid", imports=IMPORTS, in_ty="vcase", out_ty="vout", check="check_valid", show="show_valid",
                 shard=50)


def suites(tier: str, seed: int) -> List[Suite]:
    su = mk_suite()
    if tier == "replay":
        return [su]
    rng = random.Random(seed * 7919 + 8)
    nprog = 500 if tier == "quick" else 5000
    corpus = compiled_corpus(rng, nprog)
    for texts, recipes in corpus:
        for _ in range(2):
            k = gen_factor(rng)
            su.cases.append(scale_case({"kind": "scale", "sources": texts, "k": c.num_json(k)}, recipes, k, strict=True))
    n = 400 if tier == "quick" else 4000
    su.cases += gen_node_cases(rng, n)
    su.cases += gen_recipe_cases(rng, n)
    su.cases += gen_fork_cases(rng, n // 4)
    with_refs = [r for _, r in corpus if has_reference(r)]
    for recipes in with_refs[: n // 2]:
        su.cases.append(recipe_case(mutate_compiled(rng, recipes), "mutated-compiled"))
    su.cases += built_scale_cases(rng, n // 4)
    return [su]


def replay(inp: Any) -> Case:
    import recipe_grid.recipe as R
    if inp["kind"] == "scale":
        st, val = _compile_job(inp["sources"])
        if st != "ok":
            raise ValueError(f"sources no longer compile: {val}")
        return scale_case(inp, val, c.num_unjson(inp["k"]), strict=True)
    if inp["kind"] == "scale_blocks":
        prev = None
        recipes = []
        for b in inp["blocks"]:
            prev = R.Recipe(tuple(ser.node_unjson(t) for t in b), prev)
            recipes.append(prev)
        return scale_case(inp, recipes, c.num_unjson(inp["k"]), strict=False)
    if inp["kind"] == "node":
        return node_case(inp["node"], "replay")
    if inp["kind"] == "fork":
        return fork_case(inp["steps"], "replay")
    return recipe_case(inp["blocks"], "replay")


def known_match(finding: Any, case: Case) -> bool:
    return False
