"""C12 - units: every name recognised, every conversion physically right."""
from __future__ import annotations

import itertools
import math
import random
import re
from fractions import Fraction
from typing import Any, Dict, List, Optional, Tuple

from .. import coqio
from ..api import Case, Suite

ID = "C12"
PROPS_FILE = "Props/C12.v"
GEN_DEPS = ["GenUnits"]
ALLOWED_AXIOMS: List[str] = []
THEOREMS: Dict[str, str] = {
    "C12_table_builds": "full",
    "C12_names_are_documented": "full",
    "C12_names_distinct": "full",
    "C12_names_lowercase": "full",
    "C12_case_variants_spelled": "full",
    "C12_every_name_recognised": "full",
    "C12_longest_wins": "full",
    "C12_known_unit_sound": "full",
    "C12_recognised_in_quantity": "full",
    "C12_preposition_of_the": "full",
    "C12_preposition_of": "full",
    "C12_factor_physical": "full",
    "C12_reciprocal": "full",
    "C12_transitive": "full",
    "C12_refused_across_kinds": "full",
    "C12_alt_list": "full",
    "C12_alt_forms_value": "full",
    "C12_assert_cannot_fail_exact": "full",
    "C12_assert_cannot_fail_float": "full",
    "C12_equal_amounts_exact_partial": "partial",
    "C12_equal_amounts_float_sound": "full",
    "C12_equal_amounts_float_complete_partial": "partial",
    "C12_unequal_across_kinds": "full",
    "C12_ex_names": "example",
    "C12_ex_prefix_pairs": "example",
    "C12_ex_scanner": "example",
    "C12_ex_spelled": "example",
    "C12_ex_convert": "example",
    "C12_ex_float": "example",
    "C12_ex_float_path": "example",
    "C12_ex_equal": "example",
    "C12_ex_alt": "example",
}
TRUSTED = [
    "Coq 8.16.1 kernel (vm_compute for the complete enumeration over the generated table and for correspondence)",
    "translator GenUnits: UNIT_SYSTEM (names, definitions), ALL_UNITS_REGEX_LITERAL, the compiled known_unit / "
    "preposition / hsp patterns of the live grammar, the re module's (?i)/\\s/\\w classes and str.lower as tables "
    "(all read from the running interpreter and checkout)",
    "model of Python's re for the sub-language literal | \\s+ | ordered alternation | \\b (first success in priority order)",
    "model of int/Fraction/float arithmetic and math.isclose (Base/Num.v: correctly rounded binary64)",
    "Spec/UnitsRef.v: the defining physical constants (NIST / Weights and Measures Act values)",
    "correspondence harness rgv/props/C12.py, coqio serialiser, in-Coq comparison",
]
ASSUMPTIONS = [
    "unit strings do not contain U+03A3 (str.lower of capital sigma is context dependent and not modelled)",
    "quantity values are finite and within binary64 range when floats are involved",
]
RULE = ("tail: every unit name x letter-case variants (all-lower, all-upper, title, random ASCII variants, the non-ASCII "
        "code points the regex engine folds) x spacing before the unit x inner whitespace for two-word names x "
        "{'', ' of', ' of the', odd spacing/case} x following text (boundary and non-boundary), through "
        "compile(['3<text>']); convert: all ordered pairs of names plus unknown names; sorted: every name and unknown "
        "names; render: the real render_quantity (string-exact against Model/Html.v, alternative-unit list parsed: "
        "every other unit of the kind once with value x factor), every name with value 0 / 0.0 / Fraction(0); "
        "alt/equal: generated quantities incl. values differing by about 1e-9 relative; a case is non-trivial "
        "when it involves a known unit name; distinct = distinct input")

# ---------------------------------------------------------------- independent reference (oracle only)
# size of one unit in the base unit of its kind, by name; values are the legal definitions
_LB = Fraction("453.59237")
REF: Dict[str, Tuple[str, Fraction]] = {}
REF_TOL: Dict[str, Fraction] = {}     # accuracy to which units.py states the constant (cup: 5 d.p., pint: 3 d.p.)
for _names, _k, _v, _t in [
    (("g", "gram", "grams"), "mass", Fraction(1), 0),
    (("kg", "kilo", "kilos", "kilogram", "kilograms"), "mass", Fraction(1000), 0),
    (("lb", "lbs", "pound", "pounds"), "mass", _LB, 0),
    (("oz", "ozs", "ounce", "ounces"), "mass", _LB / 16, 0),
    (("l", "litre"), "volume", Fraction(1000), 0),
    (("ml", "mill", "mills", "milliliter", "milliliters"), "volume", Fraction(1), 0),
    (("tsp", "tsps", "teaspoons", "teaspoon", "tea spoon", "tea spoons"), "volume", Fraction(5), 0),
    (("tbsp", "tbsps", "tablespoon", "tablespoons", "table spoon", "table spoons"), "volume", Fraction(15), 0),
    (("cup", "cups"), "volume", Fraction("236.5882365"), Fraction(5, 10 ** 8)),
    (("pint", "pints"), "volume", Fraction("568.26125"), Fraction(5, 10 ** 7)),
]:
    for _n in _names:
        REF[_n] = (_k, _v)
        REF_TOL[_n] = Fraction(_t)


def pair_tol(a: str, b: str) -> Fraction:
    return REF_TOL.get(a, Fraction(0)) + REF_TOL.get(b, Fraction(0)) + Fraction(1, 10 ** 12)


def _us():
    from recipe_grid.units import UNIT_SYSTEM
    return UNIT_SYSTEM


def kind_of(name: str) -> Optional[str]:
    US = _us()
    for k, st in US.unit_sets.items():
        if name in st:
            return k
    return None


def phys(name: str) -> Optional[Tuple[str, Fraction]]:
    """(kind, size) of a documented name according to the independent reference; kinds without a physical
    definition (clove, can, ...) have size 1 for every alias."""
    if name in REF:
        return REF[name]
    k = kind_of(name)
    if k is None or k in ("mass", "volume"):
        return None
    return (k, Fraction(1))


# ---------------------------------------------------------------- encoders

ERR = {KeyError: "KeyError", ZeroDivisionError: "ZeroDivisionError", OverflowError: "OverflowError",
       AssertionError: "AssertionError", ValueError: "ValueError", IndexError: "IndexError"}


def run_res(f):
    """-> ("ok", value) | ("err", name)"""
    try:
        return ("ok", f())
    except tuple(ERR) as e:   # type: ignore[misc]
        for t, n in ERR.items():
            if type(e) is t:
                return ("err", n)
        raise


def res_term(r, enc) -> str:
    return f"(Ok {enc(r[1])})" if r[0] == "ok" else f"(Err {r[1]})"


def res_json(r, enc):
    return {"ok": enc(r[1])} if r[0] == "ok" else {"err": r[1]}


def forms_term(l) -> str:
    return coqio.lst([coqio.pair(coqio.num(v), coqio.string(n)) for v, n in l], "(num * str)")


def forms_json(l):
    return [[coqio.num_json(v), n] for v, n in l]


# ---------------------------------------------------------------- suite: tail (recognition in a recipe)

def impl_tail(text: str):
    """compile(['3'+text]) -> (spacing, unit, preposition, rest) | None | 'EXC ...'"""
    from recipe_grid.compiler import compile as rg_compile
    import recipe_grid.recipe as R
    try:
        recipes = rg_compile(["3" + text])
    except Exception as e:   # ParseError etc: outside what the scanner model describes
        return "EXC " + type(e).__name__
    tree = recipes[0].recipe_trees[0]
    while isinstance(tree, R.SubRecipe):
        tree = tree.sub_tree
    q = None
    if isinstance(tree, R.Ingredient):
        q = tree.quantity
    elif isinstance(tree, R.Reference) and isinstance(tree.amount, R.Quantity):
        q = tree.amount
    if q is None or q.unit is None:
        return None
    consumed = q.value_unit_spacing + q.unit + q.preposition
    if not text.startswith(consumed) or q.value != 3:
        return "EXC inconsistent"
    return (q.value_unit_spacing, q.unit, q.preposition, text[len(consumed):])


def tail_case(inp: Dict[str, Any]) -> Case:
    text = inp["text"]
    out = impl_tail(text)
    exp = inp.get("expect")       # [spacing, unit, preposition] when the property text demands recognition
    viol = None
    if exp is not None:
        if not isinstance(out, tuple) or list(out[:3]) != exp:
            viol = (f"'3{text}': documented unit {exp[1]!r} (name {inp.get('name')!r}) with spacing {exp[0]!r} and "
                    f"preposition {exp[2]!r} not recognised as written; got {out!r}")
    if isinstance(out, tuple):
        co = coqio.opt(coqio.pair(*[coqio.string(x) for x in out]))
    else:
        co = "None" if out is None else coqio.opt(coqio.pair(*[coqio.string("<exception>")] * 4))
    return Case(input={"suite": "tail", **inp}, coq_in=coqio.string(text), coq_out=co,
                impl=list(out) if isinstance(out, tuple) else out, violation=viol,
                nontrivial=True, tags=inp.get("tags", ["tail"]))


def case_variants(name: str, rng: random.Random, k: int, complete: bool) -> List[str]:
    idx = [i for i, ch in enumerate(name) if ch.isalpha()]
    out = {name, name.upper(), name.title(), name.capitalize()}
    if complete:
        for bits in itertools.product((0, 1), repeat=len(idx)):
            cs = list(name)
            for i, b in zip(idx, bits):
                if b:
                    cs[i] = cs[i].upper()
            out.add("".join(cs))
    else:
        for _ in range(k):
            out.add("".join(ch.upper() if rng.random() < 0.5 else ch for ch in name))
    return sorted(out)


FOLDS = {"k": "\u212a", "s": "\u017f", "i": "\u0130"}


def gen_tail(rng: random.Random, tier: str) -> List[Dict[str, Any]]:
    US = _us()
    names = list(US.iter_names())
    complete = tier == "thorough"
    cases: List[Dict[str, Any]] = []
    spacings = ["", " ", "\t", "  "]
    preps = ["", " of", " of the", "  OF \tthe", " Of  The"]
    inner_ws = [" ", "  ", "\t", " \t ", "\u00a0", "\u2003", "\n"]
    good_tails = [" x", " x y", ". x", "-x", "\u0301 x", " ofx"]
    bad_tails = ["x", "_ x", "é x", "2 x", "s x", "es x"]
    for name in names:
        vs = case_variants(name, rng, 6, complete)
        for v in vs:
            combos = [(sp, pr, tl) for sp in spacings for pr in preps for tl in good_tails]
            picks = [(" ", "", " x"), ("", "", " x"), (" ", " of", " x"), (" ", " of the", " x")]
            picks += rng.sample(combos, 3 if not complete else 1)
            if complete and v not in (name, name.upper(), name.title()):
                picks = [rng.choice(picks[:4])] + picks[4:]
            for sp, pr, tl in picks:
                w = v
                tags = ["tail:documented-name"]
                if " " in v and rng.random() < 0.5:
                    ws = rng.choice(inner_ws)
                    w = v.replace(" ", ws)
                    tags.append("tail:inner-whitespace-variant")
                exp_pr = pr
                inp = {"text": sp + w + pr + tl, "name": name, "tags": tags}
                if "\n" not in w:
                    inp["expect"] = [sp, w, exp_pr]
                # the property text only covers the documented spelling (a single space inside two-word names)
                if w != v:
                    inp.pop("expect", None)
                cases.append(inp)
        # non-boundary continuations, engine-folded code points: model comparison only
        for tl in bad_tails:
            cases.append({"text": " " + name + tl, "name": name, "tags": ["tail:no-boundary"]})
        for ch, f in FOLDS.items():
            if ch in name:
                cases.append({"text": " " + name.replace(ch, f, 1) + " x", "name": name, "tags": ["tail:unicode-fold"]})
                cases.append({"text": " " + name.upper().replace(ch.upper(), f, 1) + " of x", "name": name,
                              "tags": ["tail:unicode-fold"]})
    # things that are not units
    for t in [" x", " tea x", " table x", " gra x", " ofx", "x", " tea", " kgs x", " litres x", " grammes x",
              " tea  spoon  of  the  x", " tsp of thex y", " tsp oft x", " tsp OF\tTHE\tx"]:
        cases.append({"text": t, "tags": ["tail:other"]})
    return cases


# ---------------------------------------------------------------- suite: convert

def convert_case(a: str, b: str, tags=("convert",)) -> Case:
    US = _us()
    r = run_res(lambda: US.convert_between(a, b))
    viol = None
    pa, pb = phys(a), phys(b)
    ka, kb = kind_of(a), kind_of(b)
    if ka is not None and kb is not None:
        if ka != kb:
            if r != ("err", "KeyError"):
                viol = f"conversion {a!r} -> {b!r} across kinds {ka}/{kb} not refused: {r!r}"
        elif r[0] != "ok":
            viol = f"conversion {a!r} -> {b!r} within kind {ka} failed: {r!r}"
        else:
            f = Fraction(r[1])
            if pa is not None and pb is not None:
                ideal = pa[1] / pb[1]
                if abs(f - ideal) > ideal * pair_tol(a, b):
                    viol = f"factor {a!r} -> {b!r} is {r[1]!r}, physical value {float(ideal)!r}"
            back = run_res(lambda: US.convert_between(b, a))
            if viol is None and (back[0] != "ok" or abs(f * Fraction(back[1]) - 1) > Fraction(1, 10 ** 12)):
                viol = f"factors {a!r} <-> {b!r} not reciprocal: {r[1]!r} and {back!r}"
    return Case(input={"suite": "convert", "from": a, "to": b},
                coq_in=coqio.pair(coqio.string(a), coqio.string(b)), coq_out=res_term(r, coqio.num),
                impl=res_json(r, coqio.num_json), violation=viol,
                nontrivial=ka is not None, tags=list(tags) + ["convert:same-kind" if ka == kb and ka else
                                                               "convert:refused"])


def triple_violation(a: str, b: str, c3: str) -> Optional[str]:
    US = _us()
    try:
        ab, bc, ac = (Fraction(US.convert_between(x, y)) for x, y in ((a, b), (b, c3), (a, c3)))
    except Exception as e:
        return f"conversion inside one kind raised {e!r} for {(a, b, c3)}"
    if abs(ab * bc - ac) > ac / 10 ** 12:
        return f"conversion not transitive for {(a, b, c3)}: {float(ab)} * {float(bc)} != {float(ac)}"
    return None


# ---------------------------------------------------------------- suite: sorted conversions / alt forms

def _sort_key(scale_and_name):
    return (scale_and_name[0] != 1, isinstance(scale_and_name[0], float), scale_and_name[1])


def sorted_case(name: str) -> Case:
    US = _us()
    r = run_res(lambda: sorted(US.iter_conversions_from(name), key=_sort_key))
    viol = None
    k = kind_of(name)
    if k is not None:
        if r[0] != "ok":
            viol = f"iter_conversions_from({name!r}) raised {r[1]}"
        else:
            canon = [u.names[0] for u in US.unit_sets[k].units]
            got = [n for _, n in r[1]]
            if sorted(got) != sorted(canon):
                viol = f"conversions from {name!r} list {got}, units of kind {k} are {canon}"
            elif got[0] != US.unit_sets[k].normalise_unit_name(name) or r[1][0][0] != 1:
                viol = f"conversions from {name!r}: the unit itself is not listed first with factor 1: {r[1][:2]}"
            elif any(s == 1 for s, _ in r[1][1:]):
                viol = f"conversions from {name!r}: another unit has factor exactly 1"
            else:
                for s, n in r[1]:
                    if Fraction(s) != Fraction(US.convert_between(name, n)):
                        viol = f"conversions from {name!r}: factor for {n!r} differs from convert_between"
    return Case(input={"suite": "sorted", "name": name}, coq_in=coqio.string(name),
                coq_out=res_term(r, forms_term), impl=res_json(r, forms_json), violation=viol,
                nontrivial=k is not None, tags=["sorted:known" if k else "sorted:unknown"])


def impl_alt_forms(value, unit: str):
    """The alternative_forms list of render_quantity, re-run on the live UNIT_SYSTEM exactly as written there."""
    US = _us()
    alternative_forms = []
    try:
        for scale, name in sorted(US.iter_conversions_from(unit.lower()), key=_sort_key):
            alternative_forms.append((value * scale, name))
        assert alternative_forms[0][0] == value
        alternative_forms[0] = (value, unit)
    except KeyError:
        alternative_forms.append((value, unit))
    return alternative_forms


def alt_case(value, unit: str) -> Case:
    r = run_res(lambda: impl_alt_forms(value, unit))
    viol = None
    k = kind_of(unit.lower())
    if k is not None and unit.isascii() and abs(value) < 10 ** 300:
        US = _us()
        if r[0] != "ok":
            viol = f"alternative forms of {value!r} {unit!r} raised {r[1]}"
        else:
            canon = [u.names[0] for u in US.unit_sets[k].units]
            me = US.unit_sets[k].normalise_unit_name(unit.lower())
            others = sorted(n for n in canon if n != me)
            if r[1][0] != (value, unit) or sorted(n for _, n in r[1][1:]) != others:
                viol = f"alternative forms of {value!r} {unit!r}: {r[1]!r} is not the quantity then each other unit once"
            else:
                for v, n in r[1][1:]:
                    want = Fraction(value) * Fraction(US.convert_between(unit.lower(), n))
                    if abs(Fraction(v) - want) > abs(want) / 10 ** 12:
                        viol = f"alternative form {n!r} of {value!r} {unit!r} is {v!r}, value x factor is {float(want)!r}"
    return Case(input={"suite": "alt", "value": coqio.num_json(value), "unit": unit},
                coq_in=coqio.pair(coqio.num(value), coqio.string(unit)), coq_out=res_term(r, forms_term),
                impl=res_json(r, forms_json), violation=viol, nontrivial=k is not None,
                tags=["alt:known" if k else "alt:unknown", "alt:" + type(value).__name__])


def render_case(value, unit: Optional[str], sp: str, prep: str) -> Case:
    """The real render_quantity: compared string for string with the model, and its alternative-unit list checked."""
    import html as H
    import recipe_grid.recipe as R
    from recipe_grid.renderer.html import render_quantity
    from recipe_grid.number_formatting import format_number
    q = R.Quantity(value, unit, sp if unit is not None else "", prep)
    r = run_res(lambda: render_quantity(q))
    viol = None
    k = kind_of(unit.lower()) if unit is not None else None
    if r[0] == "ok" and k is not None and unit.isascii() and abs(value) < 10 ** 300:      # type: ignore[union-attr]
        US = _us()
        canon = [u.names[0] for u in US.unit_sets[k].units]
        me = US.unit_sets[k].normalise_unit_name(unit.lower())        # type: ignore[union-attr]
        items = [H.unescape(re.sub(r"<[^>]*>", "", x)) for x in re.findall(r"<li>(.*?)</li>", r[1], re.S)]
        want = {}
        for n in canon:
            if n != me:
                want[n] = format_number(value * US.convert_between(unit.lower(), n))   # type: ignore[union-attr]
        got_units = [it[len(it.rstrip("abcdefghijklmnopqrstuvwxyz ")):].strip() for it in items]
        if sorted(got_units) != sorted(want):
            viol = (f"render_quantity({value!r} {unit!r}): the alternative-unit list shows {got_units}, "
                    f"the other units of kind {k} are {sorted(want)}")
        else:
            for it, n in zip(items, got_units):
                shown = it[:len(it) - len(n)].rstrip().replace("\u2044", "/")
                if shown != want[n]:
                    viol = f"render_quantity({value!r} {unit!r}): {n} shown as {shown!r}, value x factor is {want[n]!r}"
    elif r[0] == "err" and k is not None and abs(value) < 10 ** 300:
        viol = f"render_quantity({value!r} {unit!r}) raised {r[1]}"
    qt = (f"(mkQ {coqio.num(value)} {coqio.opt(coqio.string(unit) if unit is not None else None, 'str')} "
          f"{coqio.string(q.value_unit_spacing)} {coqio.string(prep)})")
    return Case(input={"suite": "render", "value": coqio.num_json(value), "unit": unit, "sp": sp, "prep": prep},
                coq_in=qt, coq_out=res_term(r, coqio.string), impl=res_json(r, lambda x: x), violation=viol,
                nontrivial=k is not None, tags=["render:known" if k else "render:other", "render:" + type(value).__name__]
                + (["render:zero"] if value == 0 else []))


# ---------------------------------------------------------------- suite: has_equal_value_to

def quantity_term(v, u) -> str:
    return f"(mkQ {coqio.num(v)} {coqio.opt(coqio.string(u) if u is not None else None, 'str')} (@nil N) (@nil N))"


def equal_case(va, ua, vb, ub) -> Case:
    import recipe_grid.recipe as R
    r = run_res(lambda: R.Quantity(va, ua).has_equal_value_to(R.Quantity(vb, ub)))
    viol = None
    tags = ["equal"]
    if r[0] == "ok" and ua is not None and ub is not None and ua.isascii() and ub.isascii():
        pa, pb = phys(ua.lower()), phys(ub.lower())
        ka, kb = kind_of(ua.lower()), kind_of(ub.lower())
        if ka is not None and kb is not None and ka != kb:
            tags.append("equal:across-kinds")
            if r[1]:
                viol = f"{va!r} {ua!r} and {vb!r} {ub!r} are of different kinds but compare equal"
        elif (ka is None or kb is None) and ua.lower() != ub.lower():
            # an unknown unit is only comparable with the identically named unit
            tags.append("equal:unknown-unit")
            if r[1]:
                viol = f"{va!r} {ua!r} and {vb!r} {ub!r}: differently named units without a conversion compare equal"
        elif pa is not None and pb is not None:
            A, B = Fraction(va) * pa[1], Fraction(vb) * pb[1]
            rel = abs(A - B) / max(abs(A), abs(B)) if (A or B) else Fraction(0)
            tags.append("equal:same" if rel == 0 else "equal:near-1e-9" if rel < Fraction(1, 10 ** 7) else "equal:far")
            # the reference uses the legal constants, the code rounded literals (cup, pint)
            slack = pair_tol(ua.lower(), ub.lower())
            if kind_of(ua.lower()) is not None and _us().unit_sets[ka].normalise_unit_name(ua.lower()) == \
                    _us().unit_sets[ka].normalise_unit_name(ub.lower()):
                slack = Fraction(1, 10 ** 12)
            if r[1] and rel > Fraction(11, 10 ** 10) + slack:
                viol = f"{va!r} {ua!r} and {vb!r} {ub!r} differ by {float(rel):.3g} relative but compare equal"
            if not r[1] and rel + slack < Fraction(9, 10 ** 10):
                viol = f"{va!r} {ua!r} and {vb!r} {ub!r} are the same amount (rel. diff {float(rel):.3g}) but compare unequal"
    return Case(input={"suite": "equal", "a": [coqio.num_json(va), ua], "b": [coqio.num_json(vb), ub]},
                coq_in=coqio.pair(quantity_term(va, ua), quantity_term(vb, ub)),
                coq_out=res_term(r, coqio.boolean), impl=res_json(r, lambda x: x), violation=viol,
                nontrivial=ua is not None and ub is not None, tags=tags)


def rand_value(rng: random.Random):
    t = rng.random()
    if t < 0.35:
        return rng.choice([1, 2, 3, 5, 10, 16, 100, 250, 1000, rng.randrange(1, 10 ** rng.randrange(1, 10))])
    if t < 0.7:
        return Fraction(rng.randrange(1, 2000), rng.choice([2, 3, 4, 5, 7, 8, 16, 100, 1000, 3000]))
    return rng.choice([0.5, 1.5, 2.25, 0.1, 1e-3, 123.456, rng.random() * 10 ** rng.randrange(-3, 6)])


def gen_equal(rng: random.Random, n: int) -> List[Tuple[Any, Any, Any, Any]]:
    US = _us()
    out: List[Tuple[Any, Any, Any, Any]] = []
    by_kind: Dict[str, List[str]] = {}
    for nm in US.iter_names():
        by_kind.setdefault(kind_of(nm), []).append(nm)     # type: ignore[arg-type]
    kinds = list(by_kind)
    deltas = [Fraction(0), Fraction(9, 10 ** 10), Fraction(-9, 10 ** 10), Fraction(1, 10 ** 9), Fraction(-1, 10 ** 9),
              Fraction(11, 10 ** 10), Fraction(-11, 10 ** 10), Fraction(1, 10 ** 8), Fraction(1, 1000), Fraction(1, 2)]

    def cased(u: str) -> str:
        return rng.choice([u, u.upper(), u.title(), "".join(c.upper() if rng.random() < 0.5 else c for c in u)])

    for _ in range(n):
        k = rng.choice(kinds if rng.random() < 0.3 else ["mass", "volume"])
        ua, ub = rng.choice(by_kind[k]), rng.choice(by_kind[k])
        vb = rand_value(rng)
        pa, pb = phys(ua), phys(ub)
        if pa is None or pb is None:
            continue
        exact = Fraction(vb) * pb[1] / pa[1] * (1 + rng.choice(deltas))
        form = rng.random()
        va: Any = exact
        if form < 0.3:
            va = float(exact)
        elif exact.denominator == 1:
            va = int(exact)
        out.append((va, cased(ua), vb, cased(ub)))
    # unit-less, unknown units, across kinds
    for _ in range(n // 5):
        v = rand_value(rng)
        w = rng.choice([v, v * 2, float(v), Fraction(v) * (1 + Fraction(1, 10 ** 9)), Fraction(v) * (1 + Fraction(1, 10 ** 8))])
        out.append((v, None, w, None))
        out.append((v, "g", w, None))
        out.append((v, None, w, rng.choice(["kg", "spam"])))
        out.append((v, rng.choice(["spam", "Spam", "SPAM", "handful"]), w, rng.choice(["spam", "sPaM", "handfuls"])))
        out.append((v, rng.choice(by_kind["mass"]), w, rng.choice(by_kind["volume"])))
        out.append((v, "tea  spoon", w, "tsp"))
        out.append((v, "Kg", w, "kg"))
        out.append((v, "pint\u017f", w, "pints"))
    # zero-valued quantities (every number type) against incompatible and unknown units, both directions
    mass, vol = by_kind["mass"], by_kind["volume"]
    for z in (0, 0.0, Fraction(0)):
        for other in (1, 2.5, Fraction(3, 4), 0):
            for ua, ub in ((rng.choice(mass), rng.choice(vol)), (rng.choice(vol), rng.choice(mass)),
                           (rng.choice(mass), "clove"), ("sack", rng.choice(vol)),
                           ("spam", "eggs"), ("spam", rng.choice(mass)), (rng.choice(vol), "handful"),
                           ("tea  spoon", "tsp"), ("Spam", "SPAM"), ("spam", None), (None, "g")):
                out.append((z, ua, other, ub))
                out.append((other, ub, z, ua))
    out.append((10 ** 400, "g", 10 ** 397, "kg"))
    out.append((1, "g", 0, "kg"))
    out.append((0, "g", 0, "lb"))
    out.append((0.0, "cup", 0, "pint"))
    return out


# ---------------------------------------------------------------- suite: lower

def lower_case_case(x: str) -> Case:
    return Case(input={"suite": "lower", "text": x}, coq_in=coqio.string(x), coq_out=coqio.string(x.lower()),
                impl=x.lower(), nontrivial=x.lower() != x, tags=["lower"])


# ---------------------------------------------------------------- driver interface

def _suites_empty() -> Dict[str, Suite]:
    imp = ["From RG Require Import Gen.GenUnits Model.Recipe Model.Units."]
    return {
        "tail": Suite("tail", imp, "str", "option (str * str * str * str)", "check_tail", show="implicit_tail", shard=300),
        "convert": Suite("convert", imp, "str * str", "res num", "check_convert",
                         show="(fun i => convert_between (fst i) (snd i))", shard=400),
        "sorted": Suite("sorted", imp, "str", "res (list (num * str))", "check_sorted_conversions",
                        show="iter_conversions_from", shard=100),
        "alt": Suite("alt", imp, "num * str", "res (list (num * str))", "check_alt_forms",
                     show="(fun i => alt_forms (fst i) (snd i))", shard=200),
        "render": Suite("render", ["From RG Require Import Gen.GenUnits Model.Recipe Model.Table Model.Units Model.Html."],
                        "quantity", "res str", "check_render_quantity", show="render_quantity", shard=150),
        "equal": Suite("equal", imp, "quantity * quantity", "res bool", "check_equal_value",
                       show="(fun i => has_equal_value_to (fst i) (snd i))", shard=300),
        "lower": Suite("lower", imp, "str", "str", "check_lower", show="py_lower", shard=400),
    }


def suites(tier: str, seed: int) -> List[Suite]:
    S = _suites_empty()
    if tier == "replay":
        return list(S.values())
    rng = random.Random(seed * 104729 + 12)
    US = _us()
    names = list(US.iter_names())

    for inp in gen_tail(rng, tier):
        S["tail"].cases.append(tail_case(inp))

    unknown = ["spam", "", "G", "Kg", "tea  spoon", "grammes", "Kg"]
    for a in names + unknown:
        for b in names + unknown:
            if (a in unknown or b in unknown) and rng.random() < 0.7:
                continue
            S["convert"].cases.append(convert_case(a, b))
    # transitivity on the implementation (oracle only; attached to the first pair's case)
    by_kind: Dict[str, List[str]] = {}
    for nm in names:
        by_kind.setdefault(kind_of(nm), []).append(nm)    # type: ignore[arg-type]
    ntrip = 3000 if tier == "quick" else 10 ** 9
    index = {(c.input["from"], c.input["to"]): c for c in S["convert"].cases}
    for k, ns in by_kind.items():
        trips = list(itertools.product(ns, repeat=3))
        if len(trips) > ntrip:
            trips = rng.sample(trips, ntrip)
        for a, b, c3 in trips:
            v = triple_violation(a, b, c3)
            if v and index[(a, c3)].violation is None:
                index[(a, c3)].violation = v

    for a in names + unknown + [n.upper() for n in names[:5]]:
        S["sorted"].cases.append(sorted_case(a))

    nalt = 300 if tier == "quick" else 4000
    for _ in range(nalt):
        u = rng.choice(names)
        u = rng.choice([u, u, u.upper(), u.title(), "".join(c.upper() if rng.random() < 0.5 else c for c in u)])
        S["alt"].cases.append(alt_case(rand_value(rng), u))
    for u in names:
        S["alt"].cases.append(alt_case(rng.choice([1, 3, Fraction(1, 2), 2.5]), u))
    for u in ["spam", "tea  spoon", "pint\u017f", "KG", "T\u0130N", "Handful", "", "<b>"]:
        S["alt"].cases.append(alt_case(rand_value(rng), u))
    zeros = [0, 0.0, Fraction(0)]
    for u in names:
        for zv in zeros:
            S["alt"].cases.append(alt_case(zv, u))
            S["render"].cases.append(render_case(zv, rng.choice([u, u.upper(), u.title()]), rng.choice(["", " "]), rng.choice(["", " of"])))
        S["render"].cases.append(render_case(rng.choice([1, 3, Fraction(1, 2), 2.5, Fraction(7, 4)]), u, " ", ""))
    for _ in range(150 if tier == "quick" else 2500):
        u = rng.choice(names + [None, "spam", "tea  spoon", "<b>"])
        if u is not None:
            u = rng.choice([u, u.upper(), u.title()])
        S["render"].cases.append(render_case(rand_value(rng), u, rng.choice(["", " ", "  "]), rng.choice(["", " of", " of the", " <&>"])))
    S["alt"].cases.append(alt_case(10 ** 400, "lb"))
    S["alt"].cases.append(alt_case(10 ** 400, "kg"))

    for va, ua, vb, ub in gen_equal(rng, 500 if tier == "quick" else 8000):
        S["equal"].cases.append(equal_case(va, ua, vb, ub))

    samples = list(names) + [n.upper() for n in names] + ["KG", "T\u0130N", "PINT\u017f", "École ßTRASSE",
                                                            "ǅ ΑΒΓ ẞ", "Tea  Spoon", ""]
    for _ in range(100 if tier == "quick" else 3000):
        samples.append("".join(chr(rng.choice([rng.randrange(32, 127), rng.randrange(0xa0, 0x250),
                                                  rng.randrange(0x370, 0x3a3), rng.randrange(0x3a4, 0x530),
                                                  rng.randrange(0x1e00, 0x2000), rng.randrange(0x2100, 0x2200),
                                                  rng.randrange(0x10400, 0x10450)]))
                               for _ in range(rng.randrange(1, 8))))
    for x in samples:
        S["lower"].cases.append(lower_case_case(x))

    for su in S.values():
        seen = set()
        uniq = []
        for c in su.cases:
            if c.key() in seen:
                continue
            seen.add(c.key())
            uniq.append(c)
        su.cases = uniq
    return list(S.values())


def replay(inp: Any) -> Case:
    su = inp.get("suite")
    if su == "tail":
        return tail_case({k: v for k, v in inp.items() if k != "suite"})
    if su == "convert":
        return convert_case(inp["from"], inp["to"])
    if su == "sorted":
        return sorted_case(inp["name"])
    if su == "alt":
        return alt_case(coqio.num_unjson(inp["value"]), inp["unit"])
    if su == "render":
        return render_case(coqio.num_unjson(inp["value"]), inp["unit"], inp["sp"], inp["prep"])
    if su == "equal":
        return equal_case(coqio.num_unjson(inp["a"][0]), inp["a"][1], coqio.num_unjson(inp["b"][0]), inp["b"][1])
    if su == "lower":
        return lower_case_case(inp["text"])
    raise ValueError(inp)


def known_match(finding: Any, case: Case) -> bool:
    return False
