"""C19 - errors in embedded recipes are reported at their Markdown line."""
from __future__ import annotations

import random
from typing import Any, Dict, List, Optional, Tuple

from .. import coqio
from ..api import Case, Suite
from ..gen import mddocs

ID = "C19"
PROPS_FILE = "Props/C19.v"
GEN_DEPS: List[str] = []
ALLOWED_AXIOMS: List[str] = []
THEOREMS = {
    "C19_position_wellformed": "full",
    "C19_padding_shift": "full",
    "C19_line_lf": "full",
    "C19_line_crlf": "full",
    "C19_line_mixed": "full",
    "C19_exotic_break_refuted": "refuted",
    "C19_example_lf": "example",
    "C19_example_crlf": "example",
}
TRUSTED = [
    "Coq 8.16.1 kernel (coqc; vm_compute for the correspondence and the two Examples / the refutation witness only)",
    "model of CPython str.splitlines (both keepends modes), str.replace('\\r\\n','\\n'), list indexing: Model/LineCol.v, "
    "checked against CPython on adversarial strings by suites `splitlines` and `linecol`",
    "marko: `pos` of a code element is an offset into the \\r\\n->\\n normalised text on the line where the block / its "
    "opening fence starts, and the element's text is the block's lines with the container prefix removed - hypotheses of "
    "the theorems, validated on every generated document from marko's own parsed elements",
    "peggie / recipe_grid.compiler hand the error token's offset in the padded source to offset_to_line_and_column "
    "(observed only through the compared (line, column, snippet))",
    "correspondence harness: rgv/gen/mddocs.py, rgv/props/C19.py, coqio serialiser, in-Coq comparison",
]
ASSUMPTIONS = [
    "the text before the block and the block source contain no line boundary of Python's splitlines other than \\n / "
    "\\r\\n (\\v \\f \\x1c-\\x1e \\x85 U+2028 U+2029, lone \\r): Markdown does not treat them as line ends; with one of them "
    "the reported line differs (C19_exotic_break_refuted)",
    "the error token stands inside the block source (o < len(src)); the end-of-block case (unclosed parenthesis) is "
    "covered by the correspondence only",
]
RULE = ("generated Markdown documents (headings, prose of 0-60 lines, lists, quotes, non-recipe fences; 1-4 recipe blocks, "
        "indented with spaces/tabs or fenced with ```/~~~ of several lengths and indents, recipe/new-recipe, in top level / "
        "quote / bullet and ordered list / on the marker line / quote in list / list in quote / nested list; tab-separated prose and NFD (combining-mark) names before the fault; re-wrapped sibling documents (same listing at the same offset on another line) compiled in the same process; files starting with 1-3 empty lines and / or a byte-order mark; blank lines "
        "and multi-line statements inside blocks; missing final newline / closing fence) with ONE injected fault "
        "(redefinition, proportion of unknown name, stray token, unclosed parenthesis, a block repeated verbatim after a block that defines a name); faulty lines with tabs as white space and of 80-200 characters (snippet compared exactly); text that looks like an HTML character reference (&amp; &lt; &deg; &#65;) in faulty lines and before them; listing lines starting with '#' at a statement position of a "
        "block, written with LF, CRLF and mixed line ends; a case is non-trivial when the fault is not on line 1; "
        "distinct = distinct (text, fault)")


# ---------------------------------------------------------------- implementation side

def recipe_elements(text: str) -> List[Any]:
    """marko's own parse (with the repo's extension, whose elements carry .pos) -> recipe code elements in order."""
    from marko import Markdown
    from recipe_grid.markdown import RecipeGrid, CodeBlock, FencedCode
    doc = Markdown(extensions=[RecipeGrid]).parse(text)
    out: List[Any] = []

    def walk(e: Any) -> None:
        if isinstance(e, CodeBlock) or (isinstance(e, FencedCode) and e.lang in ("recipe", "new-recipe")):
            out.append(e)
        ch = getattr(e, "children", None)
        if isinstance(ch, list):
            for c in ch:
                walk(c)

    walk(doc)
    return out


def impl(text: str) -> Optional[Tuple[str, int, int, str]]:
    from recipe_grid.markdown import compile_markdown
    from recipe_grid.compiler import RecipeCompileError
    from peggie import ParseError
    try:
        compile_markdown(text)
    except (ParseError, RecipeCompileError) as e:
        return (type(e).__name__, e.line, e.column, e.snippet)
    return None


EXPECTED_ERROR = {"redef": "NameRedefinedError", "prop": "ProportionGivenForIngredientError", "stray": "ParseError",
                  "eof": "ParseError", "repeat": "NameRedefinedError"}


def oracle(text: str, f: Dict[str, Any], res: Optional[Tuple[str, int, int, str]]) -> Optional[str]:
    """The property's wording on the implementation's output, from the generator's knowledge of where the fault is."""
    if res is None:
        return "no error was reported for a document with an injected fault"
    kind, line, col, snippet = res
    if kind != EXPECTED_ERROR[f["kind"]]:
        return f"expected {EXPECTED_ERROR[f['kind']]}, got {kind}"
    file_lines = text.replace("\r\n", "\n").split("\n")
    if line != f["file_line"]:
        return (f"reported line {line}, but the offending token {f['token']!r} stands on line {f['file_line']} of the "
                f"Markdown file ({file_lines[f['file_line'] - 1]!r})")
    if not (1 <= line <= len(file_lines)):
        return f"reported line {line} outside the file"
    # the snippet is the line's recipe text EXACTLY (every character, tabs and trailing blanks included).
    # Its text is what Markdown makes of that line (container prefix and block indentation removed), read off
    # marko's own parse and tied to the generator's line (equal up to leading blanks, checked in locate()).
    expected = f.get("marko_line")
    if expected is None or expected.lstrip(" \t") != f["rline"].lstrip(" \t"):
        expected = f["rline"]
    if snippet != expected:
        return f"snippet {snippet!r} is not the recipe text of line {line} ({expected!r})"
    if snippet.strip() not in file_lines[line - 1].expandtabs(4) and snippet.strip() not in file_lines[line - 1]:
        return f"snippet {snippet!r} is not part of file line {line} ({file_lines[line - 1]!r})"
    if f["kind"] != "eof":
        tok = f["token"]
        if snippet[col - 1: col - 1 + len(tok)] != tok:
            return f"column {col} of the snippet {snippet!r} does not point at the offending token {tok!r}"
    return None


def locate(text: str, f: Dict[str, Any]) -> Tuple[Optional[str], int, bool, str, int]:
    """(assumption failure | None, pos, fenced, src, o): what marko reports for the faulty block and the token's
    offset in the block source."""
    from recipe_grid.markdown import FencedCode
    els = recipe_elements(text)
    if f["block"] >= len(els):
        return ("marko found fewer recipe blocks than generated", 0, False, "", 0)
    e = els[f["block"]]
    src = e.children[0].children
    pos = e.pos
    fenced = isinstance(e, FencedCode)
    why = None
    norm = text.replace("\r\n", "\n")
    if norm[:pos].count("\n") + 1 != f["start_line"]:
        why = (f"marko's pos {pos} is on line {norm[:pos].count(chr(10)) + 1} of the normalised text, the block "
               f"starts on line {f['start_line']}")
    src_lines = src.split("\n")
    j = f["j"]
    if f["kind"] == "eof":
        return (why, pos, fenced, src, len(src))
    if j >= len(src_lines) or not src_lines[j].endswith(f["rline"].lstrip()):
        return (why or f"marko's block text line {j} is not the generated recipe line {f['rline']!r}", pos, fenced, src, 0)
    lead_r = len(f["rline"]) - len(f["rline"].lstrip())
    lead_s = len(src_lines[j]) - len(f["rline"].lstrip())
    o = sum(len(l) + 1 for l in src_lines[:j]) + lead_s + (f["col"] - lead_r)
    return (why, pos, fenced, src, o)


def make_case(text: str, f: Dict[str, Any], tags: List[str], after: Optional[List[str]] = None) -> Case:
    """`after`: documents compiled earlier in the same process (sibling documents with the identical listing at the
    identical offset on another line): the report must depend on the document at hand only."""
    for earlier in after or []:
        impl(earlier)
    res = impl(text)
    why, pos, fenced, src, o = locate(text, f)
    sl = src.split("\n")
    f = dict(f, marko_line=sl[f["j"]] if f["j"] < len(sl) else None)
    violation = oracle(text, f, res)
    if why and not violation:
        violation = "assumption about marko fails: " + why
    if res is None:
        out = coqio.pair(coqio.n_(0), coqio.n_(0), coqio.string(""))
    else:
        out = coqio.pair(coqio.n_(res[1]), coqio.n_(res[2]), coqio.string(res[3]))
    cin = coqio.pair(coqio.string(text), coqio.n_(pos), coqio.boolean(fenced), coqio.string(src), coqio.n_(o))
    return Case(
        input={"text": text, "fault": f, "after": list(after or [])}, coq_in=cin, coq_out=out,
        impl=None if res is None else {"error": res[0], "line": res[1], "column": res[2], "snippet": res[3]},
        violation=violation, nontrivial=f["file_line"] > 1, tags=tags,
    )


def replay(inp: Any) -> Case:
    if "text" in inp:
        return make_case(inp["text"], inp["fault"], ["replay"], inp.get("after"))
    if "off" in inp:
        return linecol_case(inp["s"], inp["off"])
    return splitlines_case(inp["s"])


def known_match(finding: Any, case: Case) -> bool:
    return False


# ---------------------------------------------------------------- direct suites

BREAKS = "\n\r\x0b\x0c\x1c\x1d\x1e\x85\u2028\u2029"
NEAR = "\x1f\x84\x86\u2027\u202a\t a\x00\xe9"


def rand_text(rng: random.Random) -> str:
    n = rng.choice([0, 1, 2, 3, 5, 8, 13, 30])
    return "".join(rng.choice(BREAKS if rng.random() < 0.4 else NEAR + "\r\n\n") for _ in range(n))


def splitlines_case(x: str) -> Case:
    ke, pl = x.splitlines(keepends=True), x.splitlines()
    return Case(input={"s": x}, coq_in=coqio.string(x),
                coq_out=coqio.pair(coqio.lst([coqio.string(l) for l in ke], "str"),
                                   coqio.lst([coqio.string(l) for l in pl], "str")),
                impl=[ke, pl], violation=None, nontrivial=len(ke) > 1, tags=["splitlines"])


def linecol_case(x: str, off: int) -> Case:
    from peggie.error_message_generation import offset_to_line_and_column, extract_line
    line, col = offset_to_line_and_column(x, off)
    violation = None
    try:
        snip = extract_line(x, line)
    except IndexError:
        snip = ""
        violation = f"extract_line raises IndexError for line {line}"
    ke = x.splitlines(keepends=True)
    if violation is None:
        if not (1 <= line <= max(1, len(ke))):
            violation = f"line {line} outside 1..{max(1, len(ke))}"
        elif ke and not (1 <= col <= len(ke[line - 1]) + 1):
            violation = f"column {col} outside the line"
        elif off < len(x) and sum(len(l) for l in ke[:line - 1]) + col - 1 != off:
            violation = "line/column do not add up to the offset"
        elif any(c in BREAKS for c in snip) or snip not in x:
            violation = "snippet is not one line of the text"
    return Case(input={"s": x, "off": off}, coq_in=coqio.pair(coqio.string(x), coqio.n_(off)),
                coq_out=coqio.pair(coqio.n_(line), coqio.n_(col), coqio.string(snip)),
                impl=[line, col, snip], violation=violation, nontrivial=len(ke) > 1,
                tags=["linecol", "beyond-end" if off >= len(x) else "inside"])


# ---------------------------------------------------------------- generators

def doc_cases(rng: random.Random, n_docs: int, faults_per_doc: int, exhaustive: bool) -> List[Case]:
    cases: List[Case] = []
    kinds = ["redef", "prop", "stray", "eof"]
    for _ in range(n_docs):
        doc = mddocs.gen_doc(rng)
        allpos = mddocs.positions(doc)
        if exhaustive:
            chosen = [(bi, p, rng.choice(kinds[:3])) for bi, p in allpos] + \
                     [(bi, 0, "eof") for bi in range(len(doc.blocks()))]
        else:
            chosen = [rng.choice(allpos) + (rng.choice(kinds[:3] * 3 + ["eof"]),) for _ in range(faults_per_doc)]
        nb = len(doc.blocks())
        if nb >= 2:
            # a later block that repeats the previous block verbatim (fault in the repeat)
            chosen += [(bi, 0, "repeat") for bi in (range(1, nb) if exhaustive else [rng.randrange(1, nb)])]
        for bi, p, kind in chosen:
            d = mddocs.inject(doc, rng, kind, bi, p)
            if d is None:
                continue
            for eol in (["\n", "\r\n", "mixed"] if rng.random() < 0.25 else ["\n", "\r\n"]):
                text, _lines = mddocs.render(d, eol, random.Random(rng.randrange(1 << 30)))
                _bi, j, file_line, rline = mddocs.fault_location(d)
                b = d.blocks()[bi]
                blocks = d.blocks()
                group_first = not any(x.kind == "fenced" and x.lang == "new-recipe" for x in blocks[1: bi + 1])
                f = dict(d.fault, j=j, file_line=file_line, rline=rline, start_line=b.start_line)
                nst = len(b.stmts)
                tags = [f"fault:{kind}", f"container:{b.container}",
                        "block:" + (b.kind if b.kind == "indented" else "fenced" + b.fence[0]),
                        "eol:" + {"\n": "LF", "\r\n": "CRLF"}.get(eol, "mixed"),
                        "block#" + ("1" if bi == 0 else "later"),
                        "recipe:" + ("first" if group_first else "later-independent"),
                        "stmt:" + ("first" if d.fault["stmt"] == 0 else "last" if d.fault["stmt"] == nst - 1 else "middle"),
                        "file-line:" + ("<10" if file_line < 10 else "<40" if file_line < 40 else ">=40")]
                if b.kind == "indented" and "\t" in b.tab_indent:
                    tags.append("tab-indent")
                if not d.final_newline:
                    tags.append("no-final-newline")
                tags.append("file-start:" + d.lead)
                tags.append("fault-line:" + d.fault.get("shape", "plain"))
                if any("&" in l for st in b.stmts[: d.fault["stmt"]] for l in st):
                    tags.append("entity-text-before-fault")
                if any(l.lstrip().startswith("#") for st in b.stmts[: d.fault["stmt"]] for l in st):
                    tags.append("hash-line-before-fault")
                if b.stmts and any("\u0303" in l or "\u0300" in l or "\u0301" in l
                                   for st in b.stmts[: d.fault["stmt"]] for l in st):
                    tags.append("nfd-before-fault")
                if "\t" in text.replace("\r\n", "\n")[: sum(len(l) + 1 for l in _lines[: b.start_line - 1])]:
                    tags.append("tabs-before-block")
                cases.append(make_case(text, f, tags))
                # a sibling document compiled in the same process right after: same listing, same offset, other line
                if eol != "mixed" and rng.random() < 0.5:
                    d2 = mddocs.rewrap(d, rng)
                    if d2 is not None:
                        text2, _l2 = mddocs.render(d2, eol)
                        _b2, j2, file_line2, rline2 = mddocs.fault_location(d2)
                        f2 = dict(d2.fault, j=j2, file_line=file_line2, rline=rline2,
                                  start_line=d2.blocks()[bi].start_line)
                        if file_line2 != file_line:
                            cases.append(make_case(text2, f2, tags + ["sibling-rewrapped"], after=[text]))
    return cases


def suites(tier: str, seed: int) -> List[Suite]:
    imp = ["From RG Require Import Model.LineCol."]
    md = Suite(name="mdline", imports=imp, in_ty="rep_in", out_ty="rep_out", check="check_report",
               show="run_report", shard=60)
    lc = Suite(name="linecol", imports=imp, in_ty="str * N", out_ty="N * N * str", check="check_line_col",
               show="(fun i => line_col (fst i) (N.to_nat (snd i)))")
    sl = Suite(name="splitlines", imports=imp, in_ty="str", out_ty="list str * list str", check="check_splitlines",
               show="(fun x => (splitlines_keepends x, splitlines x))")
    if tier == "replay":
        return [md, lc, sl]
    rng = random.Random(seed * 7919 + 19)
    seen = set()
    for c in (doc_cases(rng, 100, 4, False) if tier == "quick" else
              doc_cases(rng, 250, 0, True) + doc_cases(rng, 1500, 4, False)):
        if c.key() not in seen:
            seen.add(c.key())
            md.cases.append(c)
    n = 600 if tier == "quick" else 20000
    for _ in range(n):
        x = rand_text(rng)
        k = "S" + x
        if k not in seen:
            seen.add(k)
            sl.cases.append(splitlines_case(x))
        off = rng.choice([0, len(x), len(x) + rng.randrange(1, 6)] + [rng.randrange(0, len(x) + 1)] * 5)
        k = f"L{off}:" + x
        if k not in seen:
            seen.add(k)
            lc.cases.append(linecol_case(x, off))
    return [md, lc, sl]
