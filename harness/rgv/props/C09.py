"""C09 - sub-recipe links land on exactly the definition they refer to."""
from __future__ import annotations

import random
import re
from fractions import Fraction
from typing import Any, Dict, List, Optional, Tuple

from .. import coqio, ser
from ..api import Case, Suite
from .C10 import Collector

ID = "C09"
PROPS_FILE = "Props/C09.v"
PROPS_EXTRA = ["Props/C09e2e.v"]   # glue: pages of compiled / scaled recipes are page_valid (Proofs/GlueLinks.v)
GEN_DEPS = ["GenUnits", "GenConsts"]
ALLOWED_AXIOMS: List[str] = []
THEOREMS: Dict[str, str] = {
    "C09_target_exists": "full",
    "C09_prefix_free": "full",
    "C09_unique_if_injective": "full",
    "C09_unique_refuted": "refuted",
    "C09_ex_prefix": "example",
    "C09_ex_page": "example",
    "C09_ex_hyps": "example",
    "C09e2e_strictly_valid_page_valid": "full", "C09_compiled_page_valid": "full", "C09_source_page_valid": "full", "C09_compiled_links_resolve": "full", "C09_source_links_resolve": "full", "C09e2e_compiles": "example", "C09e2e_page_hyp": "example", "C09e2e_page_computed": "example", "C09e2e_f8_compiles": "example", "C09e2e_unique_refuted_from_source": "refuted",
}
TRUSTED = [
    "Coq 8.16.1 kernel (vm_compute for correspondence)",
    "Model/Html.v (page_ids / page_hrefs / prefix_of / generate_subrecipe_output_id): hand transcription of "
    "renderer/html.py and MarkdownRecipe.render's prefix rule, validated by suite ids on rendered documents",
    "C09_target_exists assumes the validity invariant of compiled recipes (every reference embeds a root sub recipe "
    "of an earlier tree of the same recipe, index in range); Recipe.__post_init__ enforces it and C01/C08/C03 prove "
    "compile and scale establish it",
    "marko (Markdown to HTML around the placeholders) is runtime, not modelled; the suite reads the final HTML",
    "correspondence harness rgv/props/C09.py (html.parser extraction of id / href attributes), ser.py",
]
ASSUMPTIONS = ["the document's own prose defines no id attributes or '#...' links (the generator writes none)"]
RULE = ("Markdown documents with 1-3 independent recipes (```new-recipe) of 1-3 blocks each; sub recipes with single and "
        "multiple outputs, adversarial output names (spaces, punctuation, quotes, < > &, non-ASCII, names made only of "
        "punctuation, embedded scaled numbers {n}, pairs that sanitise to the same id), references with every amount "
        "form, across blocks, outputs whose names differ only by an embedded number rendered at scale 0 / Fraction(0) and "
        "with a written {0} (ids compared with the ids of the names as written), documents with 21-23 independent recipes re-using sub recipe names (prefixes recipe11-, "
        "recipe21- ...), references to the second / third output of a multi-output sub recipe with quantities, "
        "proportions and whole amounts next to an inlined single-use sub recipe (the link must land on the list item "
        "of the output NAMED in the source), statements that consist solely of a reference (root-level reference cells, in first and "
        "later independent recipes, in the defining and in later blocks), documents in which a later block of the same recipe re-defines an output name (must be "
        "rejected, otherwise rendered and checked), names of 50-80 characters sharing their first 40+; rendered at scales 1, 2, 1/3, 0.5, "
        "2.5 and, for names holding scaled numbers, at numerically equal scales of different type one after the other "
        "in the same process (1.5 then 3/2, 1/2 then 0.5, ...); ids/hrefs extracted with html.parser. "
        "Non-trivial = at least one link; distinct = distinct (document, scale)")

NAME_PARTS = ["a", "b", "sauce", "x y", "a b", "a-b", "a_b", "a.b", "A B", "é", "中", "<b>", "&", "c<d>", "it's", "#", "%",
              "?", "!", "--", "-", ".", "_", "q\"r", "100%", "a/b", "(z)", "a:b", "a=b", "a,b", "  pad  ", "\\", "ß", "K"]
SCALES: List[Any] = [1, 2, Fraction(1, 3), 0.5, 2.5]


def quote(name_parts: List[Any]) -> str:
    """Recipe source text of an output name: quoted static pieces and {n} scaled numbers."""
    out = []
    for p in name_parts:
        if isinstance(p, str):
            out.append('"' + p.replace("\\", "\\\\").replace('"', '\\"') + '"')
        else:
            out.append("{" + str(p) + "}")
    return " ".join(out) if len(out) > 1 else out[0]


LONG_STEMS = ["slow roasted tomato and basil sauce for the lasagne layers",
              "wholemeal.sourdough_starter-fed-twice-daily-for-a-week",
              "the quick brown fox jumps over the lazy dog again and again"]


def long_name(rng: random.Random) -> List[Any]:
    """50-80 characters; different names share their first 40+ characters and differ in id-alphabet characters."""
    stem = rng.choice(LONG_STEMS)
    return [stem + rng.choice([" one", " two", " three", "-a", "-b", ".v2", "_x", " batch 1", " batch 2", " large", " small"])]


def rand_name(rng: random.Random) -> List[Any]:
    r = rng.random()
    if r < 0.12:
        return long_name(rng)
    if r < 0.55:
        return [rng.choice(NAME_PARTS)]
    if r < 0.8:
        return [rng.choice(NAME_PARTS) + rng.choice([" ", "-", ""]) + rng.choice(NAME_PARTS)]
    if r < 0.9:
        return [rng.choice(["a", "mix", "x y"]) + " ", rng.choice([2, 3, 12, "1/2", "0.25", 7])]
    return [rng.choice([3, 6, "1/3", "1.5"]), " " + rng.choice(["eggs", "a b", "<i>"])]


AMOUNTS = ["", "", "1/2 of the ", "50% of the ", "rest of the ", "remaining ", "0.25 * ", "100g ", "2 tsp of ", "3 ", "{2 bags} of "]


def gen_doc(rng: random.Random) -> str:
    parts = ["# Title for 2\n"]
    first_recipe_blocks: List[List[str]] = []
    nrec = rng.choice((1, 1, 2, 3))
    for ri in range(nrec):
        nblocks = rng.choice((1, 2, 2, 3))
        defined: List[str] = []          # source text of names defined so far in this recipe
        counter = 0
        for bi in range(nblocks):
            lines = []
            for _ in range(rng.randrange(1, 4)):
                kind = rng.random()
                counter += 1
                body_ing = f"ing{ri}{bi}{counter}"
                if kind < 0.45:
                    nm = quote(rand_name(rng))
                    refs = ""
                    if defined and rng.random() < 0.4:
                        refs = ", " + rng.choice(AMOUNTS) + rng.choice(defined)
                    lines.append(f"{nm} := do({body_ing}{refs})")
                    defined.append(nm)
                elif kind < 0.7:
                    nms = [quote(rand_name(rng)) for _ in range(rng.choice((2, 2, 3)))]
                    lines.append(f"{', '.join(nms)} := split({body_ing})")
                    defined.extend(nms)
                elif defined:
                    k = rng.randrange(1, 4)
                    args = [rng.choice(AMOUNTS) + rng.choice(defined) for _ in range(k)]
                    lines.append(f"mix({', '.join(args)}, {body_ing})")
                else:
                    lines.append(f"fry({body_ing})")
            fence = "new-recipe" if (bi == 0 and ri > 0) else "recipe"
            parts.append(f"```{fence}\n" + "\n".join(lines) + "\n```\n")
            if ri == 0:
                first_recipe_blocks.append(lines)
            parts.append(rng.choice(["", "Some prose.\n", "* a list\n"]))
    if rng.random() < 0.2:
        # an independent recipe that is textually IDENTICAL to the first one (same blocks, same names): its ids
        # and links must still carry its own prefix (added by the coordinator after a seeded change keyed a
        # render cache by the value-equal Recipe)
        for bi, lines in enumerate(first_recipe_blocks):
            fence = "new-recipe" if bi == 0 else "recipe"
            parts.append(f"```{fence}\n" + "\n".join(lines) + "\n```\n")
    return "\n".join(parts)


PARTIAL = ["1/2 of the ", "50% of the ", "0.25 * ", "100g ", "2 tsp of ", "{2 bags} of "]
REST = ["rest of the ", "remaining ", "remainder of the ", "left over "]


def gen_rootref_doc(rng: random.Random) -> str:
    """Recipes containing statements that consist SOLELY of a reference (`remaining pastry` on a line of its own):
    the root of that recipe tree is the reference cell.  The referenced sub recipe is also used partially elsewhere,
    so nothing is inlined.  In the first and in later independent recipes, in the defining block and in later blocks,
    for single- and multi-output sub recipes."""
    parts = ["# Title for 2\n"]
    for ri in range(rng.choice((1, 2, 3))):
        single = quote(rand_name(rng)) if rng.random() < 0.6 else rng.choice(["stock", "pastry", "a b"])
        m1, m2 = quote(rand_name(rng)), quote(rand_name(rng))
        if len({single, m1, m2}) < 3:
            m1, m2 = "left", "right"
        b1 = [f"{single} := boil(ing{ri}a)", f"soup({rng.choice(PARTIAL)}{single}, ing{ri}b)"]
        if rng.random() < 0.6:
            b1.append(rng.choice(PARTIAL + REST) + single)                       # same block
        b2 = [f"{m1}, {m2} := split(ing{ri}c)", f"mix({rng.choice(PARTIAL)}{m1}, ing{ri}d)", rng.choice(REST) + m1]
        if rng.random() < 0.5:
            b2.append(rng.choice(PARTIAL) + m2)
        b3 = [rng.choice(REST + PARTIAL) + single]                                # later block, a block of its own
        if rng.random() < 0.5:
            b3.append(rng.choice(PARTIAL) + m2)
        blocks = [b1, b2, b3]
        if rng.random() < 0.3:
            blocks = [b1 + b2, b3]
        for bi, b in enumerate(blocks):
            fence = "new-recipe" if (bi == 0 and ri > 0) else "recipe"
            parts.append(f"```{fence}\n" + "\n".join(b) + "\n```\n")
            parts.append(rng.choice(["", "Some prose.\n"]))
    return "\n".join(parts)


MULTI_NAMES = ["stock", "veg", "yolks", "the juice", "a b", "a-b", "c<d>", "it's", "q\"r", "left over bits", "x.y",
               "Zest", "\u00e9clair cream", "100% rye", "bones & skin"]
QTY = ["200g of the ", "2 ", "{30 ml} of the ", "3 tsp ", "1 1/2 cups of "]
PROP = ["1/2 of the ", "50% of the ", "rest of the ", "remaining ", "0.25 * "]


def gen_multiref_doc(rng: random.Random) -> Tuple[str, List[Optional[str]]]:
    """Recipes that reference the SECOND / THIRD output of a multi-output sub recipe with quantities, proportions
    and whole amounts, next to an unrelated single-use sub recipe that the compiler inlines.  Returns the document
    and, for every link in document order, the output name WRITTEN in the source at that place (None = not tracked)."""
    parts = ["# Title for 2\n"]
    expect: List[Optional[str]] = []
    for ri in range(rng.choice((1, 1, 2))):
        names = rng.sample(MULTI_NAMES, rng.choice((2, 3, 3)))
        q = [quote([n]) for n in names]
        b1 = [f"{', '.join(q)} := boil(ing{ri}a, ing{ri}b)"]
        inl = rng.choice(['"yolk mix" := whisk(2 eggs)', "1 egg", '"crumb" = blitz(2 slices bread)'])
        inl_name = {"1 egg": "egg"}.get(inl, inl.split(" ")[0] if not inl.startswith('"yolk') else '"yolk mix"')
        b1.append(inl)
        b1.append(f"fry({inl_name}, ing{ri}c)")          # the single use, same block: the compiler inlines it

        def use(step: str) -> str:
            args = []
            for _ in range(rng.choice((1, 2, 3))):
                j = rng.randrange(1, len(names)) if rng.random() < 0.8 else 0      # mostly NON-first outputs
                args.append(rng.choice(QTY + PROP + ["", ""]) + q[j])
                expect.append(names[j])
            return f"{step}({', '.join(args)}, ing{ri}{step})"

        b1.append(use("blend"))
        b2 = [use("fold")]
        if rng.random() < 0.5:
            j = rng.randrange(1, len(names))
            b2.append(rng.choice(QTY + PROP) + q[j])              # a statement that is only a reference
            expect.append(names[j])
        blocks = [b1 + b2] if rng.random() < 0.4 else [b1, b2]
        for bi, b in enumerate(blocks):
            fence = "new-recipe" if (bi == 0 and ri > 0) else "recipe"
            parts.append(f"```{fence}\n" + "\n".join(b) + "\n```\n")
    return "\n".join(parts), expect


def gen_many_doc(rng: random.Random) -> str:
    """ONE document with 21-23 tiny independent recipes; the sub recipe names repeat every few recipes, so recipes
    1 / 11 / 21, 2 / 12 / 22 ... define and reference sub recipes of the same name: their ids and links may only
    differ in the per-recipe prefix (recipe-, recipe2-, ..., recipe11-, ..., recipe21-)."""
    n = rng.choice((21, 22, 23))
    names = [quote(rand_name(rng)) if rng.random() < 0.5 else rng.choice(["sauce", "stock", "a b"]) for _ in range(rng.choice((1, 2, 5)))]
    parts = ["# Title for 2\n"]
    for ri in range(n):
        nm = names[ri % len(names)]
        lines = [f"{nm} := do(ing{ri})", f"mix({rng.choice(PARTIAL)}{nm}, x{ri})", rng.choice(REST) + nm]
        parts.append(("```new-recipe\n" if ri > 0 else "```recipe\n") + "\n".join(lines) + "\n```\n")
    return "\n".join(parts)


def expected_id(prefix: str, parts: List[Any], scale: Any) -> str:
    """The documented id of an output written as `parts` (strings and numbers) at `scale`, computed without
    ScaledValueString: numbers times the factor through format_number, sanitised, '-' stripped."""
    from recipe_grid.number_formatting import format_number
    # quote() writes the segments separated by one space, which the grammar keeps as part of the name
    text = " ".join(p if isinstance(p, str) else format_number(p * scale) for p in parts)
    return prefix + sanitised(text)


def gen_zero_doc(rng: random.Random) -> Tuple[str, List[List[Any]], List[Any]]:
    """Two outputs of one recipe whose names differ only by an embedded scaled number, both referenced twice; to be
    rendered at scale 0 (and a written {0} at scale 1).  Returns (document, names as parts, scales)."""
    word = rng.choice(["batch", "tray", "a b", "x<y"])
    if rng.random() < 0.5:
        names, scales = [[word + " ", rng.choice((1, 2, 3))], [word]], [0, Fraction(0), 1, 2]
    else:
        names, scales = [[word + " ", rng.choice((2, 3))], [word + " ", 0]], [1, 2, Fraction(1, 2)]
    if rng.random() < 0.3:
        names.append(["plain"])
    q = [quote(n) for n in names]
    if rng.random() < 0.5:
        lines = [f"{x} := do(ing{i})" for i, x in enumerate(q)]
    else:
        lines = [f"{', '.join(q)} := split(ing0)"]
    lines.append("mix(" + ", ".join("1/2 of the " + x for x in q) + ")")
    lines.append("fry(" + ", ".join("rest of the " + x for x in q) + ")")
    return "# Title for 2\n\n```recipe\n" + "\n".join(lines) + "\n```\n", names, scales


def gen_redefine_doc(rng: random.Random) -> str:
    """One recipe over 2-3 blocks in which a LATER block defines an output name that an earlier block already
    defined (and references it).  The compiler must reject such a document (NameRedefinedError: trivially fine); a
    compiler that accepts it is rendered and the uniqueness of link targets is checked."""
    nm = quote(rand_name(rng)) if rng.random() < 0.5 else rng.choice(["sauce", "dough", "a b"])
    other = quote(rand_name(rng))
    b1 = [f"{nm} := do(ing1)", f"mix(1/2 of the {nm}, ing2)"]
    if rng.random() < 0.5:
        b1.insert(0, f"{other}, \"spare\" := split(ing0)")
    mid = [f"fry(rest of the {nm}, ing3)"] if rng.random() < 0.5 else [f"boil(ing3)"]
    if rng.random() < 0.5:
        b3 = [f"{nm} := again(ing4)"]
    else:
        b3 = [f"{nm}, \"extra\" := split(ing4)"]
    b3 += [f"top(1/2 of the {nm}, ing5)", f"serve(rest of the {nm})"]
    blocks = [b1, mid, b3] if rng.random() < 0.6 else [b1, b3]
    return "# Title for 2\n\n" + "\nprose\n\n".join("```recipe\n" + "\n".join(b) + "\n```\n" for b in blocks)


HAND_DOCS = [
    # F8 collision (each sub recipe is used twice so that it is not inlined)
    "```recipe\n\"a b\" := x\n\"a-b\" := y\nmix(1/2 of the a b, 1/2 of the a-b)\nfry(rest of the a b, rest of the a-b)\n```\n",
    # both sanitise to the empty string
    "```recipe\n\"?\" := x\n\"!\" := y\nmix(1/2 of the \"?\", 1/2 of the \"!\")\nfry(rest of the \"?\", rest of the \"!\")\n```\n",
    "```recipe\na := x\n```\n\n```recipe\nmix(a, 1/2 of the a)\n```\n\n```new-recipe\na := y\nmix(a)\n```\n",
    "```recipe\na, b := x\nmix(a, b, rest of the a)\n```\n",
    "```recipe\nbatch of {3} := x\nuse(batch of {3})\n```\n",
    # an output name holding a scaled number, referenced twice (not inlined): for the equal-valued scale pairs
    "```recipe\ndough for {1} tray := knead(flour, water)\nbase(1/2 of the dough for {1} tray)\ntop(rest of the dough for {1} tray)\n```\n",
    "```recipe\n{3} small rolls, crumbs := split(bread)\nmix(1/3 of the {3} small rolls, crumbs)\nfry(rest of the {3} small rolls)\n```\n",
    # long names sharing their first 40+ characters
    "```recipe\n\"slow roasted tomato and basil sauce for the lasagne layers one\" := x\n"
    "\"slow roasted tomato and basil sauce for the lasagne layers two\" := y\n"
    "mix(1/2 of the \"slow roasted tomato and basil sauce for the lasagne layers one\", "
    "1/2 of the \"slow roasted tomato and basil sauce for the lasagne layers two\")\n"
    "fry(rest of the \"slow roasted tomato and basil sauce for the lasagne layers one\", "
    "rest of the \"slow roasted tomato and basil sauce for the lasagne layers two\")\n```\n",
]
HAND_DOCS.append("```recipe\nstock := boil(bones)\nsoup(1/2 of the stock, leek)\nremaining stock\n```\n\n```recipe\n\"a b\" := x\n"
                 "fry(1/2 of the a b)\n```\n\n```recipe\nrest of the a b\n```\n\n```new-recipe\np, q := split(z)\n"
                 "mix(1/2 of the p, q)\nremaining p\n```\n")
# numerically equal scales of different type, rendered one after the other in the same process
SCALE_PAIRS: List[Tuple[Any, Any]] = [(1.5, Fraction(3, 2)), (Fraction(1, 2), 0.5), (2.0, 2), (3, 3.0), (0.25, Fraction(1, 4))]


# ---------------------------------------------------------------- observation

def extract(html: str) -> Tuple[List[Tuple[str, str]], List[str], List[Tuple[Any, ...]]]:
    c = Collector()
    c.feed(html)
    c.close()
    ids: List[Tuple[str, str]] = []
    hrefs: List[str] = []
    for t in c.tokens:
        if t[0] != "start":
            continue
        for k, v in t[2]:
            if k == "id" and v is not None:
                ids.append((v, t[1]))
            if k == "href" and v is not None and v.startswith("#"):
                hrefs.append(v)
    return ids, hrefs, c.tokens


def drawn_refs(tree: Any) -> List[Any]:
    import recipe_grid.recipe as R
    if isinstance(tree, R.Reference):
        return [tree]
    if isinstance(tree, R.Step):
        return [r for i in tree.inputs for r in drawn_refs(i)]
    if isinstance(tree, R.SubRecipe):
        return drawn_refs(tree.sub_tree)
    return []


def element_positions(tokens) -> List[Tuple[str, Tuple[int, Optional[int]]]]:
    """(id, (table number, li number or None)) for every id attribute, tables counted over the whole document."""
    out = []
    table = -1
    li = 0
    for t in tokens:
        if t[0] == "start" and t[1] == "table":
            table += 1
            li = 0
            for k, v in t[2]:
                if k == "id":
                    out.append((v, (table, None)))
        elif t[0] == "start" and t[1] == "li":
            for k, v in t[2]:
                if k == "id":
                    out.append((v, (table, li)))
                    li += 1
    return out


def li_texts(tokens) -> Dict[str, List[str]]:
    """id -> visible texts of the <li> elements carrying that id."""
    out: Dict[str, List[str]] = {}
    cur: Optional[Tuple[str, List[str]]] = None
    for t in tokens:
        if t[0] == "start" and t[1] == "li":
            i = dict(t[2]).get("id")
            cur = (i, []) if i is not None else None
        elif t[0] == "end" and t[1] == "li" and cur is not None:
            out.setdefault(cur[0], []).append("".join(cur[1]))
            cur = None
        elif t[0] == "text" and cur is not None:
            cur[1].append(t[1])
    return out


def named_target_violation(expect: List[Optional[str]], hrefs: List[str], tokens) -> Optional[str]:
    """The link written as a reference to the output NAMED n must land on the list item showing n."""
    if len(expect) != len(hrefs):
        return f"{len(hrefs)} links for {len(expect)} references written in the source"
    lis = li_texts(tokens)
    for n, h in zip(expect, hrefs):
        if n is None:
            continue
        got = lis.get(h[1:])
        if not got:
            return f"the reference to output {n!r} links to {h!r}, which is not a list item of an output list"
        if n not in got:
            return f"the reference to output {n!r} links to {h!r}, the list item of output {got[0]!r}"
    return None


def oracle(scaled: List[List[Any]], html_ids, hrefs, tokens, unscaled: Optional[List[List[Any]]] = None
           ) -> Tuple[Optional[str], Dict[str, Any]]:
    """Every '#...' href has exactly one element with that id and it is the defining table / list item."""
    import recipe_grid.recipe as R
    elems = element_positions(tokens)
    by_id: Dict[str, List[Tuple[int, Optional[int]]]] = {}
    for i, pos in elems:
        by_id.setdefault(i, []).append(pos)
    # expected definer of every drawn reference, in document order
    expected: List[Tuple[Tuple[int, Optional[int]], str]] = []
    tno = 0
    names_at: Dict[Tuple[int, Optional[int]], str] = {}
    recipe_of: Dict[int, int] = {}
    for ri, rs in enumerate(scaled):
        roots: List[Tuple[int, Any]] = []
        for r in rs:
            for tree in r.recipe_trees:
                for ref in drawn_refs(tree):
                    pos = None
                    for k, root in roots:
                        if root == ref.sub_recipe:
                            pos = (k, None if len(root.output_names) == 1 else ref.output_index)
                    expected.append((pos, str(ref.sub_recipe.output_names[ref.output_index])))  # type: ignore
                recipe_of[tno] = ri
                if isinstance(tree, R.SubRecipe):
                    roots.append((tno, tree))
                    for j, nm in enumerate(tree.output_names):
                        names_at[(tno, None if len(tree.output_names) == 1 else j)] = str(nm)
                tno += 1
    # the names as WRITTEN (unscaled), by position
    src_at: Dict[Tuple[int, Optional[int]], str] = {}
    k = 0
    for rs in (unscaled or []):
        for r in rs:
            for tree in r.recipe_trees:
                if isinstance(tree, R.SubRecipe):
                    for j, nm in enumerate(tree.output_names):
                        src_at[(k, None if len(tree.output_names) == 1 else j)] = str(nm)
                k += 1
    info: Dict[str, Any] = {"duplicates": [], "other": []}
    if len(expected) != len(hrefs):
        info["other"].append(f"{len(hrefs)} links for {len(expected)} reference cells")
        return info["other"][0], info
    for (pos, name), h in zip(expected, hrefs):
        found = by_id.get(h[1:], [])
        if pos is None:
            info["other"].append(f"reference to {name!r} has no defining tree")
        elif not found:
            info["other"].append(f"link {h!r} (to {name!r}) has no element with that id")
        elif pos not in found:
            info["other"].append(f"link {h!r} (to {name!r}) lands on element {found} instead of its definition {pos}")
        elif len(found) > 1:
            others = [names_at.get(p, "?") for p in found if p != pos]
            info["duplicates"].append({"id": h[1:], "name": name, "others": others,
                                       "same_sanitised": all(sanitised(o) == sanitised(name) for o in others),
                                       # F8 is about DIFFERENT names as written; the same name defined twice is not F8
                                       "written_names_differ": bool(src_at) and all(
                                           src_at.get(p) != src_at.get(pos) for p in found if p != pos),
                                       "same_recipe": all(recipe_of.get(p[0]) == recipe_of.get(pos[0]) for p in found),
                                       "distinct_outputs": len(set(found)) == len(found)})
    if info["other"]:
        return info["other"][0], info
    if info["duplicates"]:
        d = info["duplicates"][0]
        return (f"id {d['id']!r} of output {d['name']!r} is also the id of output(s) {d['others']!r}: "
                "the link target is not unique"), info
    return None, info


def sanitised(name: str) -> str:
    """The documented id of an output name (what F8 is about: this function is not injective)."""
    return re.sub(r"[^a-zA-Z0-9._-]", "-", name).strip("-")


def ids_case(inp: Dict[str, Any]) -> Optional[Case]:
    from recipe_grid.markdown import compile_markdown
    doc = inp["doc"]
    scale = coqio.num_unjson(inp["scale"])
    try:
        m = compile_markdown(doc)
    except Exception:
        return None          # not a valid document: outside this property
    if inp.get("before") is not None:
        # the same document rendered earlier in this process at another scale (state between renders must not matter)
        m.render(coqio.num_unjson(inp["before"]))
        compile_markdown(doc).render(coqio.num_unjson(inp["before"]))
    html = m.render(scale)
    ids, hrefs, tokens = extract(html)
    scaled = [[r.scale(scale) for r in rs] for rs in m.recipes]
    viol, info = oracle(scaled, ids, hrefs, tokens, m.recipes)
    if inp.get("expect_names") is not None:
        want_ids = [expected_id("recipe-", [p if isinstance(p, str) else coqio.num_unjson(p) for p in n], scale)
                    for n in inp["expect_names"]]
        if [i for i, _ in ids] != want_ids:
            nv = f"the ids of the page are {[i for i, _ in ids]}, the outputs as written at scale {scale} have {want_ids}"
            info["other"].append(nv)          # never a known finding
            viol = nv
    if inp.get("expect") is not None:
        nv = named_target_violation(inp["expect"], hrefs, tokens)
        if nv is not None:
            info["other"].append(nv)          # never a known finding
            viol = nv
    page = coqio.lst([ser.blocks(rs) for rs in scaled], "(list (list node))")
    out = coqio.pair(coqio.lst([coqio.pair(coqio.string(i), coqio.string(t)) for i, t in ids], "(str * str)"),
                     coqio.lst([coqio.string(h) for h in hrefs], "str"))
    tags = ["ids", f"ids:recipes={len(scaled)}", "ids:scale=" + str(scale)]
    if any(t == "li" for _, t in ids):
        tags.append("ids:multi-output")
    if info["duplicates"]:
        tags.append("ids:collision")
    if inp.get("before") is not None:
        tags.append("ids:after-equal-scale")
    import recipe_grid.recipe as _R
    if any(isinstance(tr, _R.Reference) for rs in scaled for r in rs for tr in r.recipe_trees):
        tags.append("ids:root-reference" + ("-later-recipe" if any(
            isinstance(tr, _R.Reference) for rs in scaled[1:] for r in rs for tr in r.recipe_trees) else ""))
    if any(len(i) > 50 for i, _ in ids):
        tags.append("ids:long-name")
    if inp.get("expect") is not None:
        tags.append("ids:named-nonfirst-output")
    if scale == 0:
        tags.append("ids:scale-zero")
    return Case(input={"suite": "ids", "doc": doc, "scale": inp["scale"], "before": inp.get("before"),
                       "expect": inp.get("expect"), "expect_names": inp.get("expect_names")}, coq_in=page,
                coq_out=f"(Ok {out})",
                impl={"ids": ids, "hrefs": hrefs, "oracle": info}, violation=viol, nontrivial=bool(hrefs), tags=tags)


def suites(tier: str, seed: int) -> List[Suite]:
    su = Suite("ids", ["From RG Require Import Gen.GenUnits Model.Recipe Model.Table Model.Units Model.Html."],
               "page", "res (list (str * str) * list str)", "check_page",
               show="(fun p => (page_ids p, page_hrefs p))", shard=25)
    if tier == "replay":
        return [su]
    rng = random.Random(seed * 32452843 + 9)
    ndocs = 120 if tier == "quick" else 1500
    docs = list(HAND_DOCS) + [gen_doc(rng) for _ in range(ndocs)]
    docs += [gen_redefine_doc(rng) for _ in range(20 if tier == "quick" else 200)]
    docs += [gen_rootref_doc(rng) for _ in range(30 if tier == "quick" else 300)]
    multiref = [gen_multiref_doc(rng) for _ in range(40 if tier == "quick" else 400)]
    many = [gen_many_doc(rng) for _ in range(2 if tier == "quick" else 12)]
    seen = set()
    for d in docs:
        for sc in ([1, 2, Fraction(1, 3)] if d in HAND_DOCS else rng.sample(SCALES, 2)):
            c = ids_case({"doc": d, "scale": coqio.num_json(sc)})
            if c is None or c.key() in seen:
                continue
            seen.add(c.key())
            su.cases.append(c)
        if d in HAND_DOCS or "{" in d:
            for s1, s2 in (SCALE_PAIRS if d in HAND_DOCS else [rng.choice(SCALE_PAIRS)]):
                for first, second in ((s1, s2), (s2, s1)):
                    c = ids_case({"doc": d, "scale": coqio.num_json(second), "before": coqio.num_json(first)})
                    if c is None or c.key() in seen:
                        continue
                    seen.add(c.key())
                    su.cases.append(c)
    for d in many:
        c = ids_case({"doc": d, "scale": coqio.num_json(rng.choice([1, 2]))})
        if c is not None and c.key() not in seen:
            seen.add(c.key())
            c.tags = list(c.tags) + ["ids:many-recipes"]
            su.cases.append(c)
    for _ in range(12 if tier == "quick" else 120):
        d, names, scs = gen_zero_doc(rng)
        jn = [[p if isinstance(p, str) else coqio.num_json(p) for p in n] for n in names]
        for sc in scs:
            c = ids_case({"doc": d, "scale": coqio.num_json(sc), "expect_names": jn})
            if c is not None and c.key() not in seen:
                seen.add(c.key())
                su.cases.append(c)
    for d in docs:
        if "{" in d and d not in HAND_DOCS and rng.random() < 0.5:
            c = ids_case({"doc": d, "scale": coqio.num_json(rng.choice([0, Fraction(0)]))})
            if c is not None and c.key() not in seen:
                seen.add(c.key())
                su.cases.append(c)
    for d, ex in multiref:
        for sc in rng.sample(SCALES, 2):
            c = ids_case({"doc": d, "scale": coqio.num_json(sc), "expect": ex})
            if c is None or c.key() in seen:
                continue
            seen.add(c.key())
            su.cases.append(c)
    return [su]


def replay(inp: Any) -> Case:
    c = ids_case({"doc": inp["doc"], "scale": inp["scale"], "before": inp.get("before"), "expect": inp.get("expect"),
                  "expect_names": inp.get("expect_names")})
    if c is None:
        raise ValueError("document does not compile")
    return c


def known_match(finding: Any, case: Case) -> bool:
    """F8: different outputs of ONE independent recipe whose (scaled, formatted) names sanitise to the same id.
    Accept ONLY pure duplicate-id cases: every link still reaches an element carrying its id, its defining element is
    among them, and all the elements sharing the id are different outputs of the same independent recipe (ids shared
    ACROSS independent recipes, dangling links and links to a wrong element are never accepted)."""
    if finding.get("matches") != "id_collision_sanitised":
        return False
    info = (case.impl or {}).get("oracle") or {}
    if info.get("other") or not info.get("duplicates"):
        return False
    # ... and only when the DOCUMENTED sanitisation of the colliding names (every character outside [A-Za-z0-9._-]
    # becomes '-', then strip('-')) is the same string: any other way of getting equal ids is not F8
    return all(d["others"] and d.get("same_recipe") and d.get("distinct_outputs") and d.get("same_sanitised")
               and d.get("written_names_differ") for d in info["duplicates"])
