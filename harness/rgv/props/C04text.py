"""C04, clause "each cell's visible text is the node's amount and description (or output names)".
Oracle-only module merged into the C04 check (MERGE in C04.py); the Coq theorem is Props/C04text.v when present.

The expected text is computed from the node's fields and recipe_grid.number_formatting.format_number only -
independently of renderer/html.py - and compared with the text html.parser sees in each <td>, the alternative-unit
list (<ul class="rg-quantity-conversions">) excluded."""
from __future__ import annotations

import os
import random
import re
from html.parser import HTMLParser
from typing import Any, List, Optional, Tuple

from .. import coqio as c
from .. import ser
from ..api import Case, Suite
from ..gen import trees as G

ID = "C04text"
PROPS_FILE = "Props/C04text.v" if os.path.exists(os.path.join(c.COQ_DIR, "Props/C04text.v")) else "Props/C04.v"
GEN_DEPS: List[str] = []
ALLOWED_AXIOMS: List[str] = []
THEOREMS: dict = {
    "C04_cell_text": "full",                    # equality up to white space, every cell
    "C04_conversion_items": "full",             # the alternative-unit list's items
    "C04_cell_text_exact_refuted": "refuted",   # character-for-character equality fails when t() re-indents a body
    "C04_ex_text": "example",
}
TRUSTED = ["cell-text clause: oracle on the implementation (expected text from node fields + format_number) and, when "
           "Props/C04text.v is present, a theorem over the string-exact model Model/Html.v and the tokenizer spec"]
ASSUMPTIONS: List[str] = []
RULE = "celltext suite: decorated trees (every quantity/proportion form, scaled numbers in names, multi-output references); every td checked"
FRASL = "⁄"


def num_text(v: Any) -> str:
    from recipe_grid.number_formatting import format_number
    s = format_number(v)
    return s.replace("/", FRASL) if re.fullmatch(r"(?:\d+ )?\d+/\d+", s) else s


def svs_text(s: Any) -> str:
    return "".join(p if isinstance(p, str) else num_text(p) for p in s._string)


def quantity_text(q: Any) -> str:
    if q.unit is None:
        return num_text(q.value) + q.preposition
    return num_text(q.value) + q.value_unit_spacing + q.unit + q.preposition


def expected_text(node: Any) -> Tuple[Optional[str], Optional[List[str]]]:
    """(text of the cell, or None) / (list item texts for the outputs cell)"""
    import recipe_grid.recipe as R
    if isinstance(node, R.Ingredient):
        return ((quantity_text(node.quantity) + " ") if node.quantity is not None else "") + svs_text(node.description), None
    if isinstance(node, R.Step):
        return svs_text(node.description), None
    if isinstance(node, R.Reference):
        a = node.amount
        if isinstance(a, R.Quantity):
            amt = quantity_text(a) + " "
        elif a.value is None:
            amt = a.remainder_wording + a.preposition + " "
        elif a.value == 1.0:
            amt = ""
        else:
            amt = num_text(a.value * 100 if a.percentage else a.value) + a.preposition.replace("*", "×") + " "
        return amt + svs_text(node.sub_recipe.output_names[node.output_index]), None
    if isinstance(node, R.SubRecipe):
        if len(node.output_names) == 1:
            return svs_text(node.output_names[0]), None
        return None, [svs_text(n) for n in node.output_names]
    raise TypeError(node)


class TdText(HTMLParser):
    def __init__(self):
        super().__init__(convert_charrefs=True)
        self.tds: List[dict] = []
        self.cur: Optional[dict] = None
        self.skip = 0
        self.in_li = False

    def handle_starttag(self, tag, attrs):
        a = dict(attrs)
        if tag == "td":
            self.cur = {"text": "", "lis": [], "conv": False}
            self.tds.append(self.cur)
        elif self.cur is not None and tag == "ul" and "rg-quantity-conversions" in (a.get("class") or ""):
            self.skip += 1
            self.cur["conv"] = True
        elif self.cur is not None and tag == "li" and not self.skip:
            self.in_li = True
            self.cur["lis"].append("")

    def handle_endtag(self, tag):
        if tag == "td":
            self.cur = None
        elif tag == "ul" and self.skip:
            self.skip -= 1
        elif tag == "li":
            self.in_li = False

    def handle_data(self, data):
        if self.cur is None or self.skip:
            return
        if self.in_li and self.cur["lis"]:
            self.cur["lis"][-1] += data
        else:
            self.cur["text"] += data


HTML_WS = " \t\n\f\r"   # HTML white space is exactly these five; U+2028, U+2029, U+0085, VT, FS, GS, RS are TEXT
_HTML_WS_RUN = re.compile("[" + HTML_WS + "]+")
# every line boundary of str.splitlines / textwrap.indent: after one of these t() may insert indentation
_LINE_BOUNDARY = re.compile("[\n\r\x0b\x0c\x1c\x1d\x1e\x85\u2028\u2029]")


# the line boundaries that are NOT HTML white space
_EXOTIC = re.compile("[\x0b\x1c\x1d\x1e\x85\u2028\u2029]")


def ws(x: str) -> str:
    """Runs of HTML white space collapsed to one space, ends trimmed; every other character must survive."""
    return _HTML_WS_RUN.sub(" ", x).strip(HTML_WS)


def sq(x: str) -> str:
    """HTML white space deleted (only these five characters: the other Unicode separators are visible text)."""
    return _HTML_WS_RUN.sub("", x)


def _drop_tail(text: str, lenient_tail: bool) -> str:
    """Used ONLY to recognise one recorded finding (see known_match): html.t() ends a multi-line body with
    str.rstrip(), which removes a trailing run of Python white space - including separators that are not HTML white
    space. With lenient_tail the expected text loses such a trailing run, if it holds a non-HTML-white-space char."""
    if not lenient_tail:
        return text
    stripped = text.rstrip()
    tail = text[len(stripped):]
    return stripped if any(ch not in HTML_WS for ch in tail) else text


def oracle(tree: Any, html_text: str, lenient_tail: bool = False) -> Optional[str]:
    from recipe_grid.renderer.recipe_to_table import recipe_tree_to_table
    from recipe_grid.renderer.table import Cell
    table = recipe_tree_to_table(tree)
    cells = [cell for row in table.cells for cell in row if isinstance(cell, Cell)]
    p = TdText()
    p.feed(html_text)
    if len(p.tds) != len(cells):
        return f"{len(p.tds)} <td> elements for {len(cells)} cells"
    for cell, td in zip(cells, p.tds):
        text, items = expected_text(cell.value)
        if items is not None:
            exotic_items = any(_EXOTIC.search(x) for x in items)
            if lenient_tail and any("\n" in x for x in td["lis"]):
                items = [_drop_tail(x, "\n" in y) for x, y in zip(items, td["lis"])] if len(items) == len(td["lis"]) \
                    else items
            if exotic_items:
                same = [sq(x) for x in td["lis"]] == [sq(x) for x in items]
            else:
                same = [ws(x) for x in td["lis"]] == [ws(x) for x in items]
            if not same:
                return f"output list cell shows {td['lis']!r}, the outputs are {items!r}"
            continue
        got = td["text"]
        exotic = _EXOTIC.search(text or "") is not None      # decided on the text as written
        if lenient_tail and "\n" in got:
            text = _drop_tail(text or "", True)
        if exotic:
            # textwrap.indent puts the indentation of the enclosing <tr>/<table> after such a character too, i.e.
            # HTML white space where the text had none: equality after DELETING HTML white space (and only that)
            ok = sq(got) == sq(text)
        elif td["conv"] or _LINE_BOUNDARY.search(text or ""):
            ok = ws(got) == ws(text)           # t() re-indents bodies that hold the conversions list / line breaks
        else:
            ok = got == text
        if not ok:
            return f"cell of {type(cell.value).__name__} shows {got!r}, its amount and description are {text!r}"
    return None


def make_case(tree: Any, prefix: str) -> Case:
    from recipe_grid.renderer.html import render_recipe_tree
    out = render_recipe_tree(tree, prefix)
    v = oracle(tree, out)
    return Case(input={"tree": ser.node_json(tree), "prefix": prefix}, coq_in="tt", coq_out="tt", impl=out[:400],
                violation=v, nontrivial=True, tags=["celltext"])


def suites(tier: str, seed: int) -> List[Suite]:
    su = Suite(name="celltext", imports=[], in_ty="unit", out_ty="unit", check="(fun _ _ => true)", shard=2000)
    if tier == "replay":
        return [su]
    rng = random.Random(seed * 104729 + 17)
    n = 700 if tier == "quick" else 8000
    for s in G.random_skeletons(rng, n, big=4):
        su.cases.append(make_case(G.decorate(rng, s), rng.choice(["recipe-", "recipe2-", "sub-recipe-"])))
    return [su]


def replay(inp: Any) -> Case:
    if not (isinstance(inp, dict) and "tree" in inp):
        raise ValueError("not a celltext input")
    return make_case(ser.node_unjson(inp["tree"]), inp.get("prefix", "recipe-"))


def known_match(finding: Any, case: Case) -> bool:
    """matches = "multiline_body_trailing_separator_stripped": the ONLY thing wrong with the cell texts of this case
    is that a cell (or output list item) whose body t() laid out on several lines lost a trailing run of Python
    white space containing a separator that is not HTML white space (U+001C-1F, U+0085, U+2028, U+2029, VT, ...)."""
    if finding.get("matches") != "multiline_body_trailing_separator_stripped":
        return False
    v = case.violation or ""
    if not (v.startswith("cell of ") or v.startswith("output list cell shows ")):
        return False
    inp = case.input
    if not isinstance(inp, dict):
        return False
    tj = inp.get("tree", inp.get("ftree"))
    if tj is None:
        return False
    try:
        from recipe_grid.renderer.html import render_recipe_tree
        tree = ser.node_unjson(tj)
        out = render_recipe_tree(tree, inp.get("prefix", "recipe-"))
        return oracle(tree, out) is not None and oracle(tree, out, lenient_tail=True) is None
    except Exception:  # noqa
        return False
