"""C07, clauses "terminates promptly" and "no other exception ever escapes", as a search oracle on the implementation
(merged into the C07 check: MERGE in C07.py).  Oracle only: promptness and crashes inside third-party code are runtime
behaviour no Gallina model can exhibit.

Stream `prompt`: pathological texts (unclosed braces / quotes / parentheses before long runs of digits, backslashes,
escapes, spaces, commas) as recipe sources and as Markdown prose, each compiled in a forked child under a wall-clock
limit; exceeding it, or any exception other than peggie.ParseError / RecipeCompileError, is a violation.
Stream `crash`: multi-block generated programs (valid and deliberately erroneous) through compile(): only the two
documented error kinds may escape."""
from __future__ import annotations

import multiprocessing as mp
import random
import time
from typing import Any, List, Optional, Tuple

from ..api import Case, Suite
from ..gen import programs as P
from .. import compile_common as CC

ID = "C07prompt"
PROPS_FILE = "Props/C07.v"
GEN_DEPS: List[str] = []
ALLOWED_AXIOMS: List[str] = []
THEOREMS: dict = {}
TRUSTED = ["promptness / no-crash search: a forked child per input with a wall-clock limit (30 s; the unchanged code needs "
           "milliseconds, catastrophic regex backtracking needs minutes to hours)"]
ASSUMPTIONS: List[str] = []
RULE = ("prompt: ~70 pathological recipe sources and Markdown documents up to 20 kB; crash: generated multi-block programs; "
        "non-trivial = all")
LIMIT = 30.0


def _worker(kind: str, text: Any, q: Any) -> None:
    t0 = time.time()
    try:
        if kind == "md":
            from recipe_grid.markdown import compile_markdown
            compile_markdown(text).render(2)
        else:
            from recipe_grid.compiler import compile
            compile(list(text))
        q.put(("ok", time.time() - t0))
    except Exception as e:  # noqa
        from peggie import ParseError
        from recipe_grid.compiler import RecipeCompileError
        if isinstance(e, (ParseError, RecipeCompileError)):
            q.put(("documented", time.time() - t0))
        else:
            q.put(("exception " + type(e).__name__ + ": " + str(e)[:120], time.time() - t0))


def run_limited(kind: str, text: Any) -> Tuple[str, float]:
    ctx = mp.get_context("fork")
    q = ctx.Queue()
    p = ctx.Process(target=_worker, args=(kind, text, q))
    t0 = time.time()
    p.start()
    try:
        res = q.get(timeout=LIMIT)
    except Exception:
        res = ("timeout", time.time() - t0)
    p.join(0.5)
    if p.is_alive():
        p.terminate()
        p.join()
    return res


def pathological(rng: random.Random, n_long: int) -> List[Tuple[str, Any, str]]:
    runs = {
        "digits": "1" * n_long, "backslashes": "\\" * n_long, "escapes": "\\x" * (n_long // 2),
        "mixed": "1\\" * (n_long // 2), "fractions": "1/2 " * (n_long // 4), "dots": "1." * (n_long // 2),
        "spaces": " " * n_long, "commas": "a," * 25,   # "a, f, g" nests: depth <= 30 is the property's bound
        "quotes": "\\'" * (n_long // 2),
    }
    out: List[Tuple[str, Any, str]] = []
    for name, run in runs.items():
        out.append(("md", "call {" + run, f"md-unclosed-brace-{name}"))
        out.append(("md", "a {" + run + "} b {" + run, f"md-closed-then-unclosed-{name}"))
        out.append(("md", "# T for 2\n\n    spam {" + run + "\n", f"md-block-unclosed-brace-{name}"))
        out.append(("rg", ["spam {" + run], f"rg-unclosed-brace-{name}"))
        out.append(("rg", ["'" + run], f"rg-unclosed-quote-{name}"))
        out.append(("rg", ["f(" + run], f"rg-unclosed-paren-{name}"))
        out.append(("rg", [run + " x"], f"rg-leading-{name}"))
    # tokens run together (one deleted blank away from valid recipes): must be a recipe or a documented error
    for t in ("{1 can}of spam", "{2}of the x", "{1 kg}OF x", "{ 3 big }Of  the y", "x = {1 can}of spam\nfry({2}of the x)",
              "2g'x'", "1/2of x", "50%of x", "rest'of'x", "remaining{x}", "3 tsp{2}x", "x:=y", "a,b=c", "f(x,)", "f(,x)",
              "{}", "spam {}", "fry({} eggs, x)", "'' x", '"" = y', "{1/02 kg} x", "1 1/02kg x", "{\\}", "x\rx = y\rx = z",
              "foo = spam\rfoo = eggs", "a = 1 b\x0ca = 2 c", "a = 1 b\u2028a = 2 c",
              # brace expressions where only static text is allowed (free-form units), empty / blank names
              "{1 {2}l tubs} ice cream", "{1/2 'tin' {400}g } tomatoes, chopped", "stock = boil(water, {3 cubes {10 g}} of stock)",
              "{2 {}} x", "fry({}, eggs)", "'' = boil(spam)", "' ' = boil(spam)", '"  "', "{ } , {\t}", "fry('', \"\")",
              "x = {0} y\n{0} = z", "{0}", "{0} = {0}"):
        out.append(("rg", [t.encode().decode("unicode_escape") if "\\" in t else t], "rg-adjacent-" + t[:12]))
        out.append(("md", "    " + t.replace("\n", "\n    ") + "\n", "md-adjacent-" + t[:12]))
    # many juxtaposed string segments (no nesting at all): F22, a RecursionError until fix 971a551
    for n in (20, 40, 400, 4000):
        out.append(("rg", ["x'y'" * n], f"rg-juxtaposed-{2 * n}-segments"))
        out.append(("rg", ["{1 " + "a'b'" * n + "} eggs"], f"rg-juxtaposed-unit-{2 * n}-segments"))
    out.append(("md", "    " + 'x"y" {2}' * 300 + " = z\n", "md-juxtaposed-900-segments"))
    # reference chains in which every definition uses the previous one TWICE (by-value embedding: hashing, comparing and
    # scaling cost doubles per level): 10 levels are instant, 19 levels (700 characters) take minutes = known finding F23
    out.append(("rg", [doubling_chain(10)], "rg-doubling-chain-10"))
    out.append(("rg", ["f(" * 30 + "x" + ")" * 30], "rg-depth-30"))
    out.append(("rg", ["(" * 30 + "x" + ")" * 29], "rg-depth-30-unbalanced"))
    out.append(("md", ("> " * 20) + "{" + "1" * 200, "md-nested-quote-brace"))
    # characters for which str.isdigit() / isnumeric() hold but which are not decimal digits, inside braces and numbers
    for i, t in enumerate(["cm{\u00b2}", "{\u2460}", "{1\u00b2}", "{\u2075} x", "{\u00bd cup}", "{\u0663 eggs}", "{\uff12}", "{2\u2044 3}",
                           "\u00b2 eggs", "{\u00b2 eggs} x", "1\u00b2 kg flour", "\u2460 = y", "50\uff05 of x"]):
        out.append(("md", "# T\n\nUse " + t + " here.\n\n    " + t + "\n", f"md-odd-digits-{i}"))
        out.append(("rg", [t], f"rg-odd-digits-{i}"))
    return out


def doubling_chain(n: int) -> str:
    return "a0 = f(x)\n" + "".join(f"a{i + 1} = f(1/2 of a{i}, 1/2 of a{i})\n" for i in range(n))


def doubling_levels(text: str) -> int:
    """Number of consecutive statements `name = ...` each mentioning the previously defined name at least twice."""
    import re
    prev, levels, best = None, 0, 0
    for line in text.splitlines():
        m = re.match(r"\s*([A-Za-z][A-Za-z0-9 ]*?)\s*:?=", line)
        if not m:
            prev, levels = None, 0
            continue
        if prev is not None and len(re.findall(r"\b" + re.escape(prev) + r"\b", line.split("=", 1)[1])) >= 2:
            levels += 1
            best = max(best, levels)
        else:
            levels = 0
        prev = m.group(1)
    return best


def make_prompt_case(kind: str, text: Any, tag: str) -> Case:
    res, secs = run_limited(kind, text)
    viol = None
    if res == "timeout":
        viol = f"{tag}: compilation did not finish within {LIMIT:.0f} s (input of {len(text if kind == 'md' else text[0])} characters)"
    elif res.startswith("exception") and not known_overflow(kind, text, res):
        viol = f"{tag}: {res}"
    return Case(input={"kind": kind, "text": text, "tag": tag}, coq_in="tt", coq_out="tt",
                impl={"outcome": res, "seconds": round(secs, 3)}, violation=viol, nontrivial=True, tags=["prompt", res.split()[0]])


def known_overflow(kind: str, text: Any, res: str) -> bool:
    """Numeric literals of >= 309 digits raise OverflowError/ValueError: known finding F2 (reported by the main C07 stream);
    this search stream does not report it again."""
    import re
    t = text if kind == "md" else "\n".join(text)
    return ("OverflowError" in res or "ValueError" in res) and re.search(r"[0-9]{300,}", t) is not None


def _crash_case(args: Tuple[int, int]) -> Case:
    seed, i = args
    rng = random.Random(seed * 50021 + i)
    if i % 5 == 0:
        prog = P.gen_crossblock_program(rng)        # folds in an earlier block feeding a fold in a later block
    elif i % 2:
        prog = P.gen_program(rng, max_blocks=3, max_stmts=5, max_depth=3)
    else:
        prog = P.gen_program(rng)
    texts = P.spell(prog, rng)
    _coq, js, result = CC.observe(texts)
    viol = None
    if isinstance(result, Exception) and "exception" in js:
        viol = f"compile raised {js['exception']}: {js['msg']} on a generated description"
    return Case(input={"sources": texts}, coq_in="tt", coq_out="tt", impl=(js if "ok" not in js else {"ok": True}),
                violation=viol, nontrivial=True, tags=["crash-search", "multiblock" if len(texts) > 1 else "oneblock"])


def suites(tier: str, seed: int) -> List[Suite]:
    pr = Suite(name="prompt", imports=[], in_ty="unit", out_ty="unit", check="(fun _ _ => true)", shard=5000)
    cr = Suite(name="crashsearch", imports=[], in_ty="unit", out_ty="unit", check="(fun _ _ => true)", shard=5000)
    if tier == "replay":
        return [pr, cr]
    rng = random.Random(seed * 17 + 1)
    n_long = 4000 if tier == "quick" else 18000
    pr.cases = [make_prompt_case(k, t, tag) for k, t, tag in pathological(rng, n_long)]
    cr.cases = CC.pmap(_crash_case, [(seed, i) for i in range(500 if tier == "quick" else 6000)])
    return [pr, cr]


def replay(inp: Any) -> Case:
    if isinstance(inp, dict) and "kind" in inp and "text" in inp:
        return make_prompt_case(inp["kind"], inp["text"], inp.get("tag", "replay"))
    if isinstance(inp, dict) and set(inp) == {"sources"}:
        _coq, js, result = CC.observe(inp["sources"])
        viol = f"compile raised {js['exception']}" if isinstance(result, Exception) and "exception" in js else None
        return Case(input=inp, coq_in="tt", coq_out="tt", impl=js if "ok" not in js else {"ok": True}, violation=viol)
    raise ValueError("not a C07prompt input")


def known_match(finding: Any, case: Case) -> bool:
    if finding.get("matches") == "doubling_reference_chain":
        inp = case.input
        if not (isinstance(inp, dict) and inp.get("kind") == "rg" and isinstance(case.impl, dict)):
            return False
        return case.impl.get("outcome") == "timeout" and doubling_levels("\n".join(inp["text"])) >= 17
    return False
