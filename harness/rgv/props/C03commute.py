"""C03, clause: scaling after compilation yields the same tables as compiling a source whose
scalable numbers were multiplied beforehand.  Merged into the C03 check (MERGE in C03.py)."""
from __future__ import annotations

import copy
import random
from fractions import Fraction
from typing import Any, List, Optional

from .. import coqio as c
from ..api import Case, Suite
from ..gen import programs as P
from .. import compile_common as CC

ID = "C03commute"
PROPS_FILE = "Props/C03commute.v"
GEN_DEPS: List[str] = []
ALLOWED_AXIOMS: List[str] = []
THEOREMS: dict = {
    "C03_scale_commutes_outcome": "full",
    "C03_scale_commutes_compile_same": "full",
    "C03_scale_commutes_compile": "full",
    "C03_scale_commutes_compile_ast": "full",
    "C03_scale_commutes_compile_ast_error": "full",
    "C03_key_scaling_injective": "full",
    "C03_key_scaling_float_counterexample": "example",
    "C03_scale_prog_total": "full",
    "C03_decisive_when_equal": "full",
    "C03_compile_parametric": "full",
    "C03_commutes_by_running": "example",
    "C03_examples_outcomes": "example",
    "C03_scale_commutes_hypotheses_ex": "example",
    "C03_equal_pair_ex": "example",
    "C03_decisive_needed": "example",
    "C03_decisive_needed_overflow": "example",
}
TRUSTED = ["clause 'scale after compile = compile the pre-multiplied source': theorem C03_scale_commutes_compile(_ast) for exact data, "
           "exact factor and the `decisive` hypothesis (every quantity comparison the fold makes gives the same answer after scaling; "
           "automatic when the compared amounts are exactly equal: C03_decisive_when_equal; needed: C03_decisive_needed witness at the "
           "1e-9 isclose boundary); additionally checked on generated programs by the oracle and by evaluating the model on both sides"]
ASSUMPTIONS: List[str] = []
RULE = ("commute suite: accepted and rejected generated programs x exact factors (2, 3, 10, 1/2, 3/2, 1/3, 5/4); the source is "
        "re-printed with every quantity value and every number in a name multiplied by k; non-trivial = accepted with a number in it")
FACTORS = [2, 3, 10, Fraction(1, 2), Fraction(3, 2), Fraction(1, 3), Fraction(5, 4)]


def _num_text(v: Any) -> str:
    if isinstance(v, int):
        return str(v)
    if isinstance(v, Fraction):
        return f"{v.numerator}/{v.denominator}"
    r = repr(v)
    if "e" in r or "inf" in r or "nan" in r:
        raise ValueError("unprintable")
    return r


def scale_program(prog: Any, k: Any) -> Any:
    q = copy.deepcopy(prog)

    def name(parts: List[Any]) -> List[Any]:
        return [p if isinstance(p, str) else c.num_json(c.num_unjson(p) * k) for p in parts]

    def expr(e: Any) -> None:
        if "ref" in e:
            e["ref"] = name(e["ref"])
            a = e["amt"]
            if a is not None and "q" in a:
                v = c.num_unjson(a["q"][0]) * k
                a["q"][0] = c.num_json(v)
                a["numtxt"] = _num_text(v)
        else:
            e["step"] = name(e["step"])
            for i in e["ins"]:
                expr(i)

    for b in q:
        for s in b:
            s["outs"] = [name(o) for o in s["outs"]]
            expr(s["expr"])
    return q


def observe(texts: List[str], texts_k: List[str], k: Any):
    """-> (implementation verdict: do both routes give the same tables?, detail, violation)"""
    from recipe_grid.compiler import compile, RecipeCompileError
    from recipe_grid.renderer.html import render_recipe_tree
    try:
        a = compile(list(texts))
        ea = None
    except RecipeCompileError as e:
        a, ea = None, type(e).__name__
    try:
        b = compile(list(texts_k))
        eb = None
    except RecipeCompileError as e:
        b, eb = None, type(e).__name__
    if ea or eb:
        same = ea == eb
        return same, {"errors": [ea, eb]}, (None if same else f"compile gives {ea} for the source and {eb} for the pre-multiplied source")
    a2 = [r.scale(k) for r in a]
    ta = [[render_recipe_tree(t, "p-") for t in r.recipe_trees] for r in a2]
    tb = [[render_recipe_tree(t, "p-") for t in r.recipe_trees] for r in b]
    same_struct = [list(r.recipe_trees) for r in a2] == [list(r.recipe_trees) for r in b]
    same_tables = ta == tb
    viol = None
    if not same_tables:
        viol = "scaling the compiled recipe and compiling the pre-multiplied source give different tables"
    elif not same_struct:
        viol = "tables equal but recipes differ (==) between the two routes"
    return (same_struct and same_tables), {"trees": [len(x) for x in ta]}, viol


def make_case(prog: Any, k: Any, seed: int) -> Optional[Case]:
    rng = random.Random(seed)
    try:
        pk = scale_program(prog, k)
        texts = P.spell(prog, rng, canonical=True)
        texts_k = P.spell(pk, rng, canonical=True)
    except (ValueError, OverflowError):
        return None
    same, detail, viol = observe(texts, texts_k, k)
    has_num = "PNum" in P.coq_program(prog) or "AQty" in P.coq_program(prog)
    return Case(input={"program": prog, "k": c.num_json(k), "seed": seed},
                coq_in=c.pair(P.coq_program(prog), P.coq_program(pk), c.num(k)), coq_out=c.boolean(same),
                impl={"same": same, **detail}, violation=viol, nontrivial=has_num and "errors" not in detail,
                tags=["commute", "k=" + str(k)] + (["rejected"] if "errors" in detail else []))


def _one(args):
    seed, i = args
    rng = random.Random(seed * 7001 + i)
    prog = P.gen_program(rng)
    return make_case(prog, rng.choice(FACTORS), seed * 13 + i)


def suites(tier: str, seed: int) -> List[Suite]:
    su = Suite(name="commute", imports=["From RG Require Import Model.Recipe Model.Compiler Model.CompilerInst Model.CommuteCheck."],
               in_ty="list (list astmt) * list (list astmt) * num", out_ty="bool", check="check_commute",
               show="model_commutes", shard=40)
    if tier != "replay":
        n = 400 if tier == "quick" else 6000
        su.cases = [x for x in CC.pmap(_one, [(seed, i) for i in range(n)]) if x is not None]
    return [su]


def replay(inp: Any) -> Case:
    if not (isinstance(inp, dict) and "program" in inp and "k" in inp):
        raise ValueError("not a commute input")
    return make_case(inp["program"], c.num_unjson(inp["k"]), inp.get("seed", 0))


def _quantities(prog: Any) -> List[Any]:
    out: List[Any] = []

    def expr(e: Any) -> None:
        if "ref" in e:
            a = e.get("amt")
            if a is not None and "q" in a:
                out.append(c.num_unjson(a["q"][0]))
        else:
            for i in e["ins"]:
                expr(i)
    for b in prog:
        for st in b:
            expr(st["expr"])
    return out


def at_isclose_boundary(prog: Any) -> bool:
    """Two written quantities whose relative difference is within one part in a million of math.isclose's own
    tolerance 1e-9: whether they count as 'the whole amount' is decided by float rounding, before and after scaling."""
    from fractions import Fraction
    qs = [Fraction(q) for q in _quantities(prog)]
    tol = Fraction(1, 10 ** 9)
    for i, a in enumerate(qs):
        for b in qs[i + 1:]:
            if a != b and max(a, b) > 0:
                r = abs(a - b) / max(abs(a), abs(b))
                if abs(r / tol - 1) < Fraction(1, 10 ** 6):
                    return True
    return False


def known_match(finding: Any, case: Case) -> bool:
    if finding.get("matches") == "isclose_boundary_commute":
        inp = case.input
        return (isinstance(inp, dict) and "program" in inp and (case.violation or "").startswith("scaling the compiled recipe and compiling")
                and at_isclose_boundary(inp["program"]))
    return False


# ---------------------------------------------------------------- Markdown / standalone page scaling (oracle only)

MD_TEMPLATE = """# {title} for {n}

Feeds {{{n}}} people; use a {{2 1/2}} litre pan and {{0.75}} cups of stock per {{3}} guests.
Plain fractions with long numerators: {{11/2}} hours, {{100/8}} minutes, {{12 /4}} eggs, {{10 11/2}} and {{007}} agents.
Escaped digits are text, not numbers: {{2 tins (\\4\\0\\0g each)}} of tomatoes.
Inline markup inside braces stays text: cut into {{8 *thin* slices}} and add {{4 [cups](x.html) of}} milk.

Hard-wrapped prose: shape the mince into {{8 small
patties}} about 10cm across, rest them for {{1 1/2
hours}} and add {{0.25
}} litres of water, then {{6}}
spoons of oil.

    {q1}g flour
    {q2} eggs, beaten
    dough := knead(flour, eggs, {{1/2}} tsp salt)
    bake(dough)

Then the topping, in a second block of the same recipe:

```recipe
{q1}ml cream
whip(cream, {{2}} spoons sugar)
```
"""


def _scaled_values(html_text: str) -> List[str]:
    import re as _re
    return _re.findall(r'<span class="[^"]*rg-scaled-value[^"]*"[^>]*>(.*?)</span>', html_text, flags=_re.S)


def mdscale_case(seed: int) -> Case:
    """(1) render() twice on the SAME compiled document at different factors must each equal a fresh
    compile+render; (2) the standalone page for `servings=M` of a recipe "for N" shows exactly render(M/N)."""
    import tempfile
    import pathlib
    from recipe_grid.markdown import compile_markdown
    from recipe_grid.static_site.standalone_page import generate_standalone_page
    rng = random.Random(seed * 92821 + 3)
    n = rng.choice([1, 2, 3, 4, 5, 6, 7, 8, 12, 17, 19, 23, 24, 30, 36])
    text = MD_TEMPLATE.format(title=rng.choice(["Bread", "Soup", "Pie"]), n=n, q1=rng.choice([100, 250, 500, 750]),
                              q2=rng.choice([1, 2, 3, 5]))
    k1 = rng.choice(FACTORS)
    k2 = rng.choice([f for f in FACTORS if f != k1])
    viol = None
    doc = compile_markdown(text)
    # independent expectation for the title count and the prose values: exactly k times the written numbers
    from recipe_grid.renderer.html import render_number
    import re as _re
    # ... including curly-brace expressions that span a soft line break (number on one line, its text / unit on the
    # next; break just before the closing brace; break right after the expression)
    written = [n, n, Fraction(5, 2), 0.75, 3, Fraction(11, 2), Fraction(100, 8), Fraction(12, 4), 10 + Fraction(11, 2), 7, 2,
               8, 4, 8, Fraction(3, 2), 0.25, 6]
    for k in (k1, k2):
        html_k = compile_markdown(text).render(k)
        got_vals = _re.findall(r'<span class="rg-scaled-value">(.*?)</span>', html_k, flags=_re.S)[:len(written)]
        want_vals = [render_number(v * k) for v in written]
        if got_vals != want_vals:
            viol = f"at factor {k} the title count / prose values show {got_vals}, exactly k times the written numbers is {want_vals}"
            break
        prose = "".join(_re.findall(r"<p>.*?</p>", html_k, flags=_re.S))
        wrapped = ('rg-scaled-value">' + render_number(2 * k) + '</span> tins (400g each) of tomatoes',
                   'rg-scaled-value">' + render_number(8 * k) + '</span> *thin* slices and add',
                   'rg-scaled-value">' + render_number(4 * k) + '</span> [cups](x.html) of milk',
                   'rg-scaled-value">' + render_number(8 * k) + '</span> small\npatties about 10cm across',
                   'rg-scaled-value">' + render_number(Fraction(3, 2) * k) + '</span>\nhours and add')
        if "{" in prose or "}" in prose or not all(w in prose for w in wrapped):
            viol = (f"at factor {k} a curly-brace expression spanning a line break in the prose is not rendered as a scaled "
                    f"value followed by its text (literal braces left, or text changed)")
            break
    # every recipe block (not only the first) is scaled: the second block's "{2} spoons" value
    if viol is None:
        for k in (k1, k2):
            page = compile_markdown(text).render(k)
            second = page[page.rfind('rg-recipe-block'):]
            want = 'rg-scaled-value">' + render_number(2 * k) + '</span> spoons'
            if want not in second:
                viol = f"at factor {k} the second recipe block does not show {want!r}: later blocks of a recipe are not scaled by k"
                break
    seq = [k1, k2, 1, k1]
    for k in (seq if viol is None else []):
        got = doc.render(k)
        fresh = compile_markdown(text).render(k)
        if _scaled_values(got) != _scaled_values(fresh) or got != fresh:
            viol = f"render({k}) after earlier renders {seq} differs from a fresh compile+render({k})"
            break
    m = rng.choice([1, 2, 3, 5, 7, 9, 10, 11, 13, 20])
    detail = {"n": n, "m": m, "k1": str(k1), "k2": str(k2)}
    if viol is None:
        d = tempfile.mkdtemp(prefix="rgv_c03_")
        try:
            f = pathlib.Path(d) / "r.md"
            f.write_text(text)
            page = generate_standalone_page(f, servings=m, embed_local_links=False)
            want = compile_markdown(text).render(Fraction(m, n))
            if _scaled_values(want) != [v for v in _scaled_values(page)][: len(_scaled_values(want))] \
                    and not all(v in page for v in _scaled_values(want)):
                viol = (f"standalone page for {m} servings of a recipe for {n} does not show the document scaled by "
                        f"exactly {Fraction(m, n)}")
        finally:
            import shutil
            shutil.rmtree(d, ignore_errors=True)
    return Case(input={"mdscale": seed}, coq_in="tt", coq_out="tt", impl=detail, violation=viol, nontrivial=True,
                tags=["mdscale", f"native={n}"])


_suites_commute = suites


def suites(tier: str, seed: int) -> List[Suite]:   # noqa: F811  (extends the commute suite with the Markdown stream)
    out = _suites_commute(tier, seed)
    md = Suite(name="mdscale", imports=[], in_ty="unit", out_ty="unit", check="(fun _ _ => true)", shard=2000)
    if tier != "replay":
        md.cases = [mdscale_case(seed * 1000 + i) for i in range(40 if tier == "quick" else 400)]
    return out + [md]


_replay_commute = replay


def replay(inp: Any) -> Case:   # noqa: F811
    if isinstance(inp, dict) and "mdscale" in inp:
        return mdscale_case(inp["mdscale"])
    return _replay_commute(inp)
