"""C04, whole-function correspondence: recipe_grid.renderer.html.render_recipe_tree(tree, id_prefix) against the composed
model Model/RenderTree.v [render_recipe_tree_model] (layout on the skeleton + lookup of the node drawn in each cell +
string-exact cell / row / table rendering of Model/Html.v), compared string-exactly inside Coq.
Merged into the C04 check (MERGE in C04.py); theorems: Props/C04e2e.v.

Inputs: (a) every root tree of recipes compiled by the real compiler from generated programs (gen/programs.py), some
of them scaled; (b) decorated random trees of gen/trees.py (every quantity / proportion form, adversarial strings);
(c) a few malformed trees (a step without inputs: ValueError out of the layout)."""
from __future__ import annotations

import os
import random
from fractions import Fraction
from typing import Any, Dict, List, Optional, Tuple

from .. import coqio as c
from .. import ser
from ..api import Case, Suite
from ..gen import programs as P
from ..gen import trees as G
from . import C02, C04, C04text

ID = "C04full"
PROPS_FILE = "Props/C04e2e.v" if os.path.exists(os.path.join(c.COQ_DIR, "Props/C04e2e.v")) else "Props/C04.v"
GEN_DEPS: List[str] = ["GenUnits"]
ALLOWED_AXIOMS: List[str] = []
THEOREMS: dict = {}
if PROPS_FILE.endswith("C04e2e.v"):
    THEOREMS = {
        "C04e2e_rows_fast": "full", "C04e2e_never_layout_error": "full", "C04e2e_render_structure": "full",
        "C04e2e_td": "full", "C04e2e_cells_inert": "full", "C04e2e_table_skeleton": "full",
        "C04_wf_tree_renders": "full", "C04_compiled_tree_renders": "full", "C04_compiled_scaled_tree_renders": "full",
        "C04_source_tree_renders": "full", "C04_source_scaled_tree_renders": "full",
        "C04e2e_example": "example", "C04e2e_example_instance": "example",
    }
TRUSTED = ["Model/RenderTree.v: composition of Model/Layout.v, Model/HtmlTable.v (rows of Cell instances) and Model/Html.v "
           "(render_recipe_tree_with) into one function node -> prefix -> text; tied to render_recipe_tree by suite "
           "`fulltree` (string-exact comparison inside Coq)"]
ASSUMPTIONS: List[str] = []
RULE = ("fulltree suite: root trees of recipes compiled from generated programs (multi-block, references, multi-output, "
        "folded sub recipes; a third of them scaled by an int / Fraction / float), decorated random trees (all amount "
        "forms, adversarial strings), two id prefixes, a few steps without inputs. Non-trivial = the tree has a step "
        "or a sub recipe")

PREFIXES = ["recipe-", "recipe2-", "sub-recipe-", "recipe12-"]
ERR = {KeyError: "KeyError", ZeroDivisionError: "ZeroDivisionError", OverflowError: "OverflowError",
       AssertionError: "AssertionError", ValueError: "ValueError", IndexError: "IndexError"}
SCALES = [2, 3, Fraction(1, 2), Fraction(3, 2), Fraction(1, 3), 0.5, 2.5, 10]


def make_case(tree: Any, prefix: str, origin: str) -> Case:
    from recipe_grid.renderer.html import render_recipe_tree
    viol: Optional[str] = None
    try:
        out: Any = render_recipe_tree(tree, prefix)
        co = f"(ObsHtml {c.string(out)})"
    except tuple(ERR) as e:       # type: ignore[misc]
        out = None
        co = f"(ObsExn {ERR[type(e)]})"
    except Exception as e:  # noqa
        out = None
        co = "ObsOtherExn"
        viol = f"render_recipe_tree raised {type(e).__name__}: {str(e)[:100]}"
    skel = G.skeleton_of(tree)
    if out is not None and G.well_formed(skel):
        viol = C04.oracle(tree, {"markup_len": len(out), "doc": C04.read_html(out)}, C02.observe(tree)) \
            or C04text.oracle(tree, out)
    tags = ["fulltree", "fulltree:" + origin, "fulltree:" + ("ok" if out is not None else "raised")]
    if out is not None and "rg-quantity-conversions" in out:
        tags.append("fulltree:alt-unit-list")
    if out is not None and ' id="' in out.split("\n", 1)[0]:
        tags.append("fulltree:table-id")
    if "href=" in (out or ""):
        tags.append("fulltree:link")
    return Case(input={"suite": "fulltree", "ftree": ser.node_json(tree), "prefix": prefix, "origin": origin},
                coq_in=c.pair(ser.node(tree), c.string(prefix)), coq_out=co,
                impl=(out[:600] if out is not None else co), violation=viol,
                nontrivial=skel[0] in ("S", "U"), tags=tags)


SEPARATORS = ["\u2028", "\u2029", "\x85", "\x0b", "\x1c", "\x1d", "\x1e"]


def inject_separator(rng: random.Random, texts: List[str]) -> List[str]:
    words = sorted({w for w in P.WORDS if " " not in w and len(w) >= 3 and any(w in x for x in texts)})
    if not words:
        return texts
    w = rng.choice(words)
    k = rng.randrange(1, len(w))
    new = w[:k] + rng.choice(SEPARATORS) + w[k:]
    return [x.replace(w, new) for x in texts]


def compiled_trees(rng: random.Random, n: int) -> List[Tuple[Any, str]]:
    """Root trees of compiled (and sometimes scaled) recipes."""
    from recipe_grid.compiler import compile
    out: List[Tuple[Any, str]] = []
    i = 0
    while len(out) < n and i < 20 * n + 50:
        i += 1
        kw: Dict[str, Any] = {}
        if i % 3 == 0:
            kw = dict(max_blocks=2, max_stmts=4, max_depth=3)
        prog = P.gen_program(rng, **kw)
        texts = P.spell(prog, rng)
        if rng.random() < 0.5:
            # a Unicode line boundary that is not HTML white space inside a name, written in the SOURCE (the parser
            # keeps it): every occurrence of one word is respelled, so names still refer to each other
            texts = inject_separator(rng, list(texts))
        try:
            rs = compile(list(texts))
        except Exception:  # compile errors are C01/C07's business
            continue
        origin = "compiled"
        if rng.random() < 0.34:
            k = rng.choice(SCALES)
            try:
                rs = [r.scale(k) for r in rs]
                origin = "scaled"
            except Exception:
                continue
        trees = [t for r in rs for t in r.recipe_trees]
        rng.shuffle(trees)
        for t in trees[:3]:
            if len(ser.node(t)) < 60000:
                out.append((t, origin))
    return out[:n]


def suites(tier: str, seed: int) -> List[Suite]:
    su = Suite(name="fulltree", imports=["From RG Require Import Model.Recipe Model.Table Model.Units Model.RenderTree."],
               in_ty="node * str", out_ty="tobs", check="check_fulltree", show="show_fulltree", shard=20)
    if tier == "replay":
        return [su]
    rng = random.Random(seed * 999331 + 404)
    n_comp, n_rand = (200, 100) if tier == "quick" else (3300, 1700)
    cases: List[Case] = []
    for t, origin in compiled_trees(rng, n_comp):
        cases.append(make_case(t, rng.choice(PREFIXES[:2] * 3 + PREFIXES), origin))
    skels = [s for s in G.random_skeletons(rng, n_rand * 2) if G.n_leaves(s) <= 40][:n_rand]
    for s in skels:
        cases.append(make_case(G.decorate(rng, s), rng.choice(PREFIXES[:2] * 3 + PREFIXES), "random"))
    import recipe_grid.recipe as RR
    from recipe_grid.scaled_value_string import ScaledValueString as SVS
    for bad in (RR.Step(SVS("x"), ()), RR.Step(SVS("y"), (RR.Ingredient(SVS("a")), RR.Step(SVS("z"), ()))),
                RR.SubRecipe(RR.Step(SVS("w"), ()), (SVS("w"),))):
        cases.append(make_case(bad, "recipe-", "malformed"))
    # balance the shards: longest outputs first, dealt round-robin
    cases.sort(key=lambda x: len(x.coq_in) + len(x.coq_out), reverse=True)
    nsh = max(1, (len(cases) + su.shard - 1) // su.shard)
    buckets: List[List[Case]] = [[] for _ in range(nsh)]
    for i, x in enumerate(cases):
        buckets[i % nsh].append(x)
    su.shard = len(buckets[0])
    for b in buckets:
        su.cases.extend(b)
    return [su]


def replay(inp: Any) -> Case:
    if not (isinstance(inp, dict) and "ftree" in inp):
        raise ValueError("not a fulltree input")
    return make_case(ser.node_unjson(inp["ftree"]), inp.get("prefix", "recipe-"), inp.get("origin", "replay"))


def known_match(finding: Any, case: Case) -> bool:
    return False
