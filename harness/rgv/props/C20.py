"""C20 - lint verdicts are exactly the documented mistakes, at any scale."""
from __future__ import annotations

import random
import re
from fractions import Fraction
from typing import Any, Dict, List, Optional, Tuple

from .. import coqio as c
from .. import ser
from ..api import Case, Suite
from . import C08

ID = "C20"
PROPS_FILE = "Props/C20.v"
PROPS_EXTRA = ["Props/C20e2e.v"]   # glue: linter total on compiled / scaled recipes (Proofs/GlueLint.v)
GEN_DEPS = ["GenUnits", "GenConsts"]
ALLOWED_AXIOMS: List[str] = []
THEOREMS: Dict[str, str] = {}       # filled in below (kept next to the list in Props/C20.v)
TRUSTED = [
    "Coq 8.16.1 kernel (coqc, vm_compute for correspondence only)",
    "model Model/Lint.v of recipe_grid/lint.py (visit order, sets/dicts keyed by SubRecipe with ==, float accumulator, "
    "unit conversion, remainder rule, isclose(rel_tol=0.02)); tied by suite 'lint' (kinds and output-name texts)",
    "Base/Num.v: Python int/Fraction/float + * / and math.isclose with one explicit binary64 rounding per float operation",
    "Model/Units.v convert_between over the generated unit table (C12), Model/NumFmt.v format_number (C11) for name texts",
    "Python set/dict semantics: membership by == with consistent hash; dict keeps the first inserted key; insertion order",
    "correspondence harness: rgv/props/C20.py builders, rgv/ser.py serialiser; lint descriptions parsed back to "
    "(kind, output name) with anchored regular expressions",
    "the command-line glue scripts/recipe_grid_lint.py (one check() per independent recipe of a page, output lines, exit "
    "status) is OBSERVED by suite 'lintcli' against the documented verdicts recipe by recipe, not modelled in Coq",
    "lint.check is stateless: every recipe of a sequence is linted after the others in one process (suite 'lint', tag "
    "after-other-recipes) and must get the verdict it gets alone",
]
ASSUMPTIONS = ["numbers are non-negative with at most 15 significant digits (no float underflow/overflow)",
               "unit names do not contain the final-sigma character (str.lower table)"]
RULE = ("targeted programs: one or two sub recipes (hidden ingredient / named / through single-input steps / two outputs / "
        "unknown or zero total) split into a random multiset of proportion, percentage, quantity (same, convertible, "
        "incompatible, free-form, missing unit) and remainder uses in random order, sums on and next to 0.98 / 1 / 1.02, "
        "uses inside sub recipes, single uses that fold; plus random programs of gen/programs.py; each at scale None and "
        "at 1-2 scale factors (int, Fraction, float); plus an always-run strict stream (STRICT_INVARIANCE) in which the "
        "verdict kinds must be equal at every scale even through float unit conversions (known finding F20).  "
        "Also: sequences of 2-3 recipes sharing a value-identical up-front line, each linted after the others in one process; "
        "tiny scale factors (1e-7, 1e-9); suite 'lintcli': the recipe-grid-lint command on pages of 2-3 independent recipes "
        "(new-recipe blocks) compared with the documented verdicts recipe by recipe.  "
        "Non-trivial: at least one reference or one lint")

IMPORTS = ["From RG Require Import Model.Recipe Model.Units Model.Lint."]

KINDS = ["unused_ingredient", "sub_recipe_quantity_unknown", "sub_recipe_reference_incompatible_units",
         "sub_recipe_reference_non_positive_remainder", "sub_recipe_not_used_up", "sub_recipe_used_too_much"]

PATTERNS = {
    "unused_ingredient": re.compile(r"^Ingredient '(?P<n>.*)' was defined but never used\.$", re.S),
    "sub_recipe_quantity_unknown": re.compile(
        r"^A quantity \(.*?\) of (?P<n>.*) was referenced but the total amount is not known so cannot be checked\.$", re.S),
    "sub_recipe_reference_incompatible_units": re.compile(
        r"^A reference to sub recipe (?P<n>.*) is given using Incompatible units: .*?$", re.S),
    "sub_recipe_reference_non_positive_remainder": re.compile(
        r"^A reference to the remainder of recipe (?P<n>.*) was made while none remains unused\.$", re.S),
    "sub_recipe_not_used_up": re.compile(r"^Not all of (?P<n>.*) was used \(about -?\d+% remains unused\)\.$", re.S),
    "sub_recipe_used_too_much": re.compile(
        r"^More of (?P<n>.*) was used than is available \(about -?\d+% of the total amount used\)\.$", re.S),
}


# ---------------------------------------------------------------- implementation side

def run_lint(recipes: List[Any]) -> Tuple[str, Any]:
    """('ok', [(kind, name text)]) or ('exc', exception class name)."""
    from recipe_grid import lint
    try:
        out = []
        for l in lint.check(recipes):
            m = PATTERNS[l.kind.name].match(l.description)
            if m is None:
                raise AssertionError(f"cannot read the output name back from {l.description!r}")
            out.append((l.kind.name, m.group("n")))
        return ("ok", out)
    except (ZeroDivisionError, OverflowError, IndexError, KeyError, ValueError) as e:
        return ("exc", type(e).__name__)


def coq_result(res: Tuple[str, Any]) -> str:
    st, val = res
    if st == "ok":
        return "(LOk " + c.lst([f"({k}, {c.string(n)})" for k, n in val], "lint") + ")"
    err = {"ZeroDivisionError": "LZeroDivision", "OverflowError": "LOverflow", "IndexError": "LIndexError"}.get(val)
    return f"(LErr {err})" if err else "(LErr (LUnits OutOfFuel))"


# ---------------------------------------------------------------- oracle: the documented rules over Fraction

EPS = Fraction(1, 10 ** 9)


def _total(sr: Any) -> Optional[Any]:
    import recipe_grid.recipe as R
    node = sr.sub_tree
    while isinstance(node, R.Step) and len(node.inputs) == 1:
        node = node.inputs[0]
    if isinstance(node, R.Ingredient) and len(sr.output_names) == 1:
        return node.quantity
    return None


def _dyadic(x: Fraction) -> bool:
    d = x.denominator
    return d & (d - 1) == 0 and d <= 2 ** 20 and abs(x.numerator) < 2 ** 30


def lint_spec(recipes: List[Any]) -> Tuple[List[Tuple[str, str]], bool, bool]:
    """Documented verdicts in exact arithmetic: (lints, ambiguous, float_conversion).
    ambiguous: some decision was within 1e-9 of (but not on) the remainder boundary, or within 1e-9 of the 2% boundary,
    where the float implementation may legitimately differ.  A remainder after EXACTLY full use is decisive: 'no
    remainder left' is required (known finding F16 when the binary64 sum falls below 1.0);
    float_conversion: a unit conversion factor was a float (lb, cup, pint)."""
    import recipe_grid.recipe as R
    from recipe_grid.units import UNIT_SYSTEM
    hidden: List[Any] = []
    referenced: List[Any] = []
    uses: List[Tuple[Any, Dict[int, List[Any]]]] = []

    def visit(n: Any) -> None:
        if isinstance(n, R.Reference):
            if not any(n.sub_recipe == x for x in referenced):
                referenced.append(n.sub_recipe)
            for k, d in uses:
                if k == n.sub_recipe:
                    d.setdefault(n.output_index, []).append(n)
                    break
            else:
                uses.append((n.sub_recipe, {n.output_index: [n]}))
            return
        if isinstance(n, R.SubRecipe):
            if len(n.output_names) == 1 and n.show_output_names is False and not any(n == x for x in hidden):
                hidden.append(n)
            visit(n.sub_tree)
        elif isinstance(n, R.Step):
            for i in n.inputs:
                visit(i)

    for r in recipes:
        for t in r.recipe_trees:
            visit(t)
    out: List[Tuple[str, str]] = []
    for name in sorted(str(h.output_names[0]) for h in hidden if not any(h == x for x in referenced)):
        out.append(("unused_ingredient", name))
    ambiguous = False
    float_conv = False
    for sr, per_output in uses:
        for idx, refs in per_output.items():
            name = str(sr.output_names[idx])
            total = _total(sr)
            used = Fraction(0)
            dyadic = True
            problem = False
            for ref in refs:
                a = ref.amount
                if isinstance(a, R.Quantity):
                    if total is None or total.value == 0:
                        problem = True
                        out.append(("sub_recipe_quantity_unknown", name))
                        continue
                    conv: Optional[Fraction]
                    if a.unit is not None and total.unit is not None:
                        try:
                            cv = UNIT_SYSTEM.convert_between(a.unit.lower(), total.unit.lower())
                            if isinstance(cv, float):
                                float_conv = True
                                dyadic = False
                            conv = Fraction(cv)
                        except KeyError:
                            conv = None
                    elif a.unit is None and total.unit is None:
                        conv = Fraction(1)
                    else:
                        conv = None
                    if conv is None:
                        problem = True
                        out.append(("sub_recipe_reference_incompatible_units", name))
                        continue
                    term = Fraction(a.value) * conv / Fraction(total.value)
                    if isinstance(a.value, float) or isinstance(total.value, float) or not _dyadic(term):
                        dyadic = False
                    used += term
                elif a.value is None:
                    if used != 1 and abs(used - 1) <= EPS:
                        ambiguous = True
                    if used >= 1:
                        problem = True
                        out.append(("sub_recipe_reference_non_positive_remainder", name))
                    used = max(Fraction(1), used)
                else:
                    term = Fraction(a.value)
                    if not _dyadic(term):
                        dyadic = False
                    used += term
            if not problem:
                diff = abs(used - 1)
                bound = Fraction(2, 100) * max(used, Fraction(1))
                if abs(diff - bound) <= EPS:
                    ambiguous = True
                if diff <= bound:
                    pass
                elif used < 1:
                    out.append(("sub_recipe_not_used_up", name))
                else:
                    out.append(("sub_recipe_used_too_much", name))
    return out, ambiguous, float_conv


def has_floats(recipes: List[Any]) -> bool:
    from . import C03
    return any(isinstance(v, float) for v in C03.all_numbers(recipes))


def make_case(texts: List[str], recipes: List[Any], k: Optional[Any], tag: str, strict: bool = False,
              after: Optional[List[List[str]]] = None) -> Case:
    """strict: the property's last sentence taken literally - the verdict kinds at scale k must equal those at scale 1
    even when a unit conversion goes through a float factor (the always-run stream STRICT_INVARIANCE and replays of
    inputs that carry "scale"); otherwise invariance is only demanded when every conversion factor is exact."""
    import recipe_grid.recipe as R
    viol = None
    target = recipes
    kkey = "scale" if strict else "k"
    if after:
        # the verdict on a recipe must not depend on what was linted before it in the same process: lint the earlier
        # recipes of the sequence first (results discarded), in this very call
        for prev in after:
            stp, rp = C08._compile_job(prev)
            if stp == "ok":
                run_lint(rp)
    if k is not None:
        try:
            target = [r.scale(k) for r in recipes]
        except R.RecipeInvariantError as e:
            return Case(input={"sources": texts, kkey: c.num_json(k)}, coq_in="(None, [])", coq_out="(LOk [])",
                        impl=type(e).__name__, violation=f"scaling raised {type(e).__name__}", tags=[tag])
    res = run_lint(target)
    if res[0] == "exc":
        viol = f"lint.check raised {res[1]}"
    else:
        spec, amb, _fc = lint_spec(target)
        if not amb and sorted(spec) != sorted(res[1]):
            viol = (f"lint verdicts {sorted(res[1])} differ from the documented ones {sorted(spec)}"
                    + (f" at scale {k!r}" if k is not None else ""))
        if viol is None and k is not None and not isinstance(k, float) and k > 0 and not has_floats(recipes):
            # exact data, exact positive factor, exact unit conversions: the verdicts must not move at all
            base = run_lint(recipes)
            _bspec, _bamb, bfc = lint_spec(recipes)
            if base[0] == "ok" and (strict or not bfc) and sorted(x for x, _ in base[1]) != sorted(x for x, _ in res[1]):
                viol = f"lint kinds change under scaling by {k!r}: {[x for x, _ in base[1]]} -> {[x for x, _ in res[1]]}"
    kin = c.opt(c.num(k) if k is not None else None, "num")
    tags = [tag, "scaled-" + type(k).__name__ if k is not None else "unscaled"]
    if res[0] == "ok":
        tags += ["lint-" + kn for kn, _ in res[1]] or ["no-lint"]
    if strict:
        tags.append("strict-invariance")
    if after:
        tags.append("after-other-recipes")
        return Case(input={"sources": texts, kkey: c.num_json(k) if k is not None else None, "after": after},
                    coq_in=f"({kin}, {ser.blocks(recipes)})", coq_out=coq_result(res),
                    impl=res[1] if res[0] == "exc" else [list(x) for x in res[1]], violation=viol,
                    nontrivial=True, tags=tags)
    return Case(input={"sources": texts, kkey: c.num_json(k) if k is not None else None},
                coq_in=f"({kin}, {ser.blocks(recipes)})", coq_out=coq_result(res),
                impl=res[1] if res[0] == "exc" else [list(x) for x in res[1]], violation=viol,
                nontrivial=C08.has_reference(recipes) or (res[0] == "ok" and bool(res[1])), tags=tags)


# ---------------------------------------------------------------- targeted program builder (source text)

MASS = ["g", "kg", "lb", "oz", "grams", "Kilos"]
VOLUME = ["ml", "l", "tsp", "tbsp", "cup", "pints", "Litre"]
COUNT = ["can", "cans", "tin", "Tins"]
NAMES = ["spam", "tomato sauce", "eggs", "stock", "Red Onion", "dough"]
STEPS = ["fry", "boil", "bake", "mix", "chop", "serve"]


def fmt(x: Any) -> str:
    if isinstance(x, int):
        return str(x)
    if isinstance(x, float):
        return repr(x)
    ip, rem = divmod(x.numerator, x.denominator)
    if rem == 0:
        return f"{x.numerator}/1"
    return f"{ip} {rem}/{x.denominator}" if ip else f"{rem}/{x.denominator}"


def split_total(rng: random.Random, total: Fraction, n: int, denom: int) -> List[Fraction]:
    """n positive fractions (multiples of 1/denom of the total) adding up to the total."""
    cuts = sorted(rng.sample(range(1, denom), n - 1)) if n > 1 else []
    parts = [b - a for a, b in zip([0] + cuts, cuts + [denom])]
    return [total * Fraction(p, denom) for p in parts]


def in_unit(rng: random.Random, qty: Fraction, unit: Optional[str], family: List[str]) -> Tuple[Any, Optional[str]]:
    """qty (in [unit]) written in a unit of the same family (value converted) - exact or float as it comes."""
    from recipe_grid.units import UNIT_SYSTEM
    if unit is None:
        return qty, None
    u2 = rng.choice(family)
    conv = UNIT_SYSTEM.convert_between(unit.lower(), u2.lower())
    if isinstance(conv, float):
        v = float(qty) * conv
        return float(f"{v:.6g}"), u2
    return qty * conv, u2


def num_text(rng: random.Random, v: Any) -> str:
    """A literal for v: int / fraction / decimal (exactly v when possible)."""
    if isinstance(v, float):
        return repr(v) if "e" not in repr(v) else f"{v:.10f}"
    v = Fraction(v)
    if v.denominator == 1:
        return str(v.numerator)
    if rng.random() < 0.5:
        # decimal if it terminates within 6 places
        d = v.denominator
        while d % 2 == 0:
            d //= 2
        while d % 5 == 0:
            d //= 5
        if d == 1:
            s = f"{float(v):.8f}".rstrip("0")
            if Fraction(s) == v:
                return s
    return fmt(v)


def build_boundary_program(rng: random.Random) -> Tuple[List[str], str]:
    """Unit-less (or unit-ful) integer total split into quantity uses that add up to it exactly, then a remainder:
    'no remainder left' must be reported at every scale."""
    name = rng.choice(NAMES)
    unit = rng.choice(["", "", "", "g", "ml", " cans"])
    total = rng.randrange(3, 60)
    n = rng.choice([2, 2, 3, 4])
    cuts = sorted(rng.sample(range(1, total), min(n, total) - 1))
    parts = [b - a for a, b in zip([0] + cuts, cuts + [total])]
    lines = [f"{total}{unit} {name}"]
    steps = [f"{rng.choice(STEPS)}({p}{unit} {name})" for p in parts]
    if rng.random() < 0.3:
        steps = [f"mix({', '.join(f'{p}{unit} {name}' for p in parts)})"]
    lines += steps
    if rng.random() < 0.85:
        lines.append(f"bake({rng.choice(['remaining', 'rest of the'])} {name})")
    return ["\n".join(lines) + "\n"], "boundary-exact-then-remainder"


def build_program(rng: random.Random) -> Tuple[List[str], str]:
    """One targeted program; returns (block sources, tag)."""
    if rng.random() < 0.15:
        return build_boundary_program(rng)
    name = rng.choice(NAMES)
    family, unit = rng.choice([(MASS, "g"), (MASS, "kg"), (MASS, "lb"), (VOLUME, "ml"), (VOLUME, "cup"), (VOLUME, "tsp"),
                               (COUNT, "can"), ([], None), ([], None)])
    total = Fraction(rng.choice([1, 2, 3, 4, 5, 6, 10, 12, 100, 250, 300, 454, 1000, Fraction(1, 2), Fraction(3, 2),
                                 Fraction(5, 4), Fraction(7, 3)]))
    shape = rng.choice(["hidden", "hidden", "hidden", "named", "named", "chain", "chain", "two-outputs", "no-total",
                        "zero-total", "multi-input"])
    tq = f"{num_text(rng, total)}{' ' if rng.random() < 0.5 and unit else ''}{unit or ''}".strip()
    if unit is None:
        tq = num_text(rng, total)
    lines: List[str] = []
    target = name
    if shape == "hidden":
        lines.append(f"{tq} {name}")
    elif shape == "named":
        target = "prepared " + name
        lines.append(f"{target} = {tq} {name}")
    elif shape == "chain":
        target = "cooked " + name
        lines.append(f"{target} = {tq} {name}, chop, fry")
    elif shape == "two-outputs":
        target = name + " stock"
        lines.append(f"{target}, {name} bits = boil({tq} {name})")
    elif shape == "no-total":
        lines.append(f"{name}")
    elif shape == "zero-total":
        lines.append(f"0{unit or ''} {name}")
    else:
        target = name + " mix"
        lines.append(f"{target} = mix({tq} {name}, 1 pinch salt)")

    # the multiset of uses
    goal = rng.choice(["exact", "exact", "exact", "under", "over", "b98", "b98-", "b98+", "b102", "b102-", "b102+", "random",
                       "random"])
    frac = {"exact": Fraction(1), "under": Fraction(rng.choice([50, 75, 90, 97]), 100),
            "over": Fraction(rng.choice([103, 110, 150, 200]), 100),
            "b98": Fraction(98, 100), "b98-": Fraction(98, 100) - Fraction(1, 10 ** 6), "b98+": Fraction(98, 100) + Fraction(1, 10 ** 6),
            "b102": Fraction(100, 98), "b102-": Fraction(102, 100), "b102+": Fraction(10205, 10000),
            "random": Fraction(rng.randrange(1, 300), 200)}[goal]
    n = rng.choice([1, 2, 2, 3, 3, 4])
    denom = rng.choice([2, 3, 4, 5, 7, 8, 10, 20, 100])
    if n > denom:
        n = denom
    parts = split_total(rng, frac, n, denom)
    uses: List[str] = []
    for p in parts:
        k = rng.random()
        if k < 0.35:
            form = rng.random()
            if form < 0.4:
                uses.append(f"{num_text(rng, p)} of {target}")
            elif form < 0.7:
                uses.append(f"{num_text(rng, p * 100)}% of the {target}")
            else:
                uses.append(f"{num_text(rng, p)} * {target}")
        else:
            q = p * total
            if unit is not None and rng.random() < 0.12:
                u2: Optional[str] = rng.choice(["handful", None, rng.choice(VOLUME if family is MASS else MASS)])
                v: Any = q
            elif unit is None and rng.random() < 0.12:
                u2, v = rng.choice(MASS + VOLUME), q
            else:
                v, u2 = in_unit(rng, q, unit, family)
            if u2 == "handful":
                uses.append(f"{{{num_text(rng, v)} handful}} {target}")
            elif u2 is None:
                uses.append(f"{num_text(rng, v)} {target}")
            else:
                uses.append(f"{num_text(rng, v)}{rng.choice(['', ' '])}{u2} {target}")
    r = rng.random()
    if r < 0.35:
        uses.insert(rng.randrange(len(uses) + 1), rng.choice(["remaining", "rest of the", "left over"]) + " " + target)
    elif r < 0.45:
        uses.append("remaining " + target)
        uses.append("rest of " + target)
    if rng.random() < 0.3:
        rng.shuffle(uses)
    if rng.random() < 0.1:
        uses = [rng.choice([target, tq + " " + target if unit is not None or True else target])]   # single use: folds

    # place the uses: separate statements, one step, inside a named sub recipe, in a second block
    blocks = [lines]
    cur = lines
    if rng.random() < 0.25:
        cur = []
        blocks.append(cur)
    i = 0
    extra = 0
    while i < len(uses):
        take = rng.choice([1, 1, 2, 3])
        grp = uses[i:i + take]
        i += take
        ins = ", ".join(grp + ([f"{rng.randrange(1, 4)} extra{extra}"] if rng.random() < 0.3 else []))
        extra += 1
        st = f"{rng.choice(STEPS)}({ins})"
        k = rng.random()
        if k < 0.2:
            st = f"part{extra} := {st}"
            cur.append(st)
            cur.append(f"serve(part{extra}, 1 plate{extra})")
        elif k < 0.3:
            st = f"part{extra}, juice{extra} = {st}"
            cur.append(st)
        else:
            cur.append(st)
    if rng.random() < 0.2:
        cur.insert(0, f"{rng.randrange(1, 5)} unused thing{rng.randrange(3)}")
    if rng.random() < 0.1:
        cur.insert(0, "2 zest\n1 apple")
    if rng.random() < 0.12:
        # unused ingredients with distinct names that render alike (a number in braces vs the same digits as text)
        v = rng.choice([2, 4, 10, 12])
        w = rng.choice(["portions for", "slices no", "tray size"])
        cur.insert(0, f"{rng.randrange(1, 4)} {w} {{{v}}}\n{rng.randrange(4, 7)} {w} {v}")
    return ["\n".join(b) + "\n" for b in blocks], f"{shape}/{goal}"


HAND = [
    ["300g spam\n2 eggs\nfry(1/2 of spam, eggs)\nboil(remaining spam)"],
    ["tomato sauce = 1 can of chopped tomatoes, boiled down\npour over(cook(mix(1/2 of tomato sauce, chicken)), 1/3 of tomato sauce)"],
    ["1 can of spam\n1 egg, boiled, shelled\nslice(spam, eggs)"],
    ["1 can spam\na := fry(1/2 of spam)\nb := boil(remaining spam)\nmix(a, b)"],
    ["4 eggs\nfry(1 eggs)\nboil(3 eggs)\nbake(remaining eggs)"],
    ["400g spam\nfry(100g spam)\nboil(300g spam)\nbake(remaining spam)"],
    ["1 lb spam\nfry(8 oz spam)\nboil(226.796 g spam)"],
    ["0g spam\nfry(1g spam)\nboil(remaining spam)"],
    ["spam\nfry(1g spam)\nboil(50% of spam)\nbake(50% of spam)"],
    ["a, b = boil(300g veg)\nfry(100g a, 1/2 of b)\nbake(1/2 of b)"],
    ["1kg flour\nmix(500g flour, 1 tsp flour)\nbake({2 handful} flour, 3 flour)"],
    ["100g x\nfry(49g x)\nboil(49g x)", "bake(0.02 * x)"],
]


HAND_SCALED = [
    (["4 eggs\nfry(1 eggs)\nboil(3 eggs)\nbake(remaining eggs)"], [Fraction(1, 10), Fraction(1, 3), Fraction(2, 3)]),
    (["5 eggs\nfry(1 eggs)\nboil(4 eggs)\nbake(remaining eggs)"], [Fraction(1, 3), Fraction(1, 7), 3]),
    (["45359237g spam\nfry(1lb spam)\nfry(2lb spam)\nfry(99997lb spam)\nbake(remaining spam)"], [Fraction(5, 3), 3]),
    (["55ml spam\nboil(6ml spam)\nboil(15ml spam)\nmix(31ml spam)\nfry(3ml spam)\nbake(rest of the spam)\n"], [Fraction(7, 3)]),
    # very small positive factors: a known total stays known (C20_scale_invariant_exact holds for EVERY exact k > 0)
    (["1g spam\nfry(1/2 of spam)\nboil(1/4g spam)"], [Fraction(1, 10 ** 7), Fraction(1, 10 ** 9), 1e-9]),
    (["300g flour\nmix(100g flour, 2 eggs)\nbake(200 g flour)"], [Fraction(1, 10 ** 9), Fraction(1, 10 ** 7)]),
    (["4 eggs\nfry(1 eggs)\nboil(3 eggs)"], [Fraction(1, 10 ** 7), 1e-9]),
    # two unused up-front ingredients whose names are different values but render to the same text at scale 1:
    # one report each, at every scale
    (["2 portions for {4}\n3 portions for 4\nfry(1 egg)"], [1, 2, Fraction(1, 2), 3]),
    (["1 tin {10}cm\n2 tin 10cm\n5g tin {10}\\cm\nbake(1 cake)"], [1, Fraction(3, 2)]),
    (["100g mix no {0.5}\n200g \"mix no 0.5\"\nsauce = 300g tomatoes, boil\nfry(1/2 of sauce)\nbake(remaining sauce)"], [1, 2]),
]


# Always-run stream in which scale invariance is demanded literally (also through float unit conversions).
STRICT_INVARIANCE = [
    (["45359237g spam\nfry(1lb spam)\nfry(2lb spam)\nfry(99997lb spam)\nbake(remaining spam)"], Fraction(5, 3)),
]


def build_shared_recipes(rng: random.Random) -> List[List[str]]:
    """2-3 independent recipes (each a list of block sources) that share a value-identical up-front line such as
    '2 eggs': some split it correctly, some leave it unused (misspelt later), some use too much."""
    item = rng.choice(["2 eggs", "300g flour", "1 can of spam", "1/2 l stock", "1.5 kg potatoes"])
    name = item.split()[-1]
    other = rng.choice(["1 onion", "100g butter", "3 carrots"])
    oname = other.split()[-1]

    def one() -> List[str]:
        k = rng.random()
        if k < 0.35:        # correct split
            body = rng.choice([f"fry(1/2 of the {name}, oil)\nboil(remaining {name})",
                               f"a = whisk(1/2 of the {name}, sugar)\nb = mix(1/2 of the {name}, milk)",
                               f"mix(1/4 of {name}, salt)\nbake(3/4 of {name})"])
            lines = f"{item}\n{body}"
        elif k < 0.7:       # listed, never used again (misspelt)
            lines = f"{item}\n{other}\nfry({name}x, {oname})"
        elif k < 0.85:      # used too much / not used up
            lines = f"{item}\nfry(3/4 of the {name})\nboil({rng.choice(['3/4', '1/8'])} of the {name})"
        else:               # not mentioned at all in this recipe
            lines = f"{other}\nchop({oname})"
        if rng.random() < 0.3:
            first, rest = lines.split("\n", 1)
            return [first + "\n", rest + "\n"]          # two blocks of the same recipe
        return [lines + "\n"]
    return [one() for _ in range(rng.choice([2, 2, 3]))]


# ---------------------------------------------------------------- the recipe-grid-lint command on multi-recipe pages

def page_text(recipes_src: List[List[str]]) -> str:
    """A Markdown page holding several INDEPENDENT recipes: each starts with a ```new-recipe block (the first with a
    plain ```recipe block), further blocks of the same recipe are ```recipe blocks."""
    out = ["# Page for 2\n"]
    for i, blocks in enumerate(recipes_src):
        for j, src in enumerate(blocks):
            lang = "new-recipe" if (j == 0 and i > 0) else "recipe"
            out.append(f"Part {i + 1}.{j + 1}:\n\n```{lang}\n{src.rstrip(chr(10))}\n```\n")
    return "\n".join(out)


def run_cli(path: str) -> Tuple[Any, List[str]]:
    """recipe_grid.scripts.recipe_grid_lint.main() on one file: (exit status, printed lines)."""
    import contextlib
    import io
    import sys
    from recipe_grid.scripts import recipe_grid_lint
    stdout = io.StringIO()
    old = sys.argv
    sys.argv = ["recipe-grid-lint", path]
    code: Any = None
    try:
        with contextlib.redirect_stdout(stdout):
            try:
                recipe_grid_lint.main()
            except SystemExit as e:
                code = e.code
    finally:
        sys.argv = old
    return code, stdout.getvalue().splitlines()


def cli_case(recipes_src: List[List[str]]) -> Case:
    """The command's printed warnings for a page = the documented verdicts of each independent recipe on it."""
    import os
    import shutil
    import tempfile
    text = page_text(recipes_src)
    expected: List[Tuple[str, str]] = []
    ambiguous = False
    for blocks in recipes_src:
        st, recipes = C08._compile_job(blocks)
        if st != "ok":
            raise AssertionError(f"page recipe does not compile: {blocks!r}: {recipes}")
        spec, amb, _fc = lint_spec(recipes)
        ambiguous = ambiguous or amb
        expected += spec
    d = tempfile.mkdtemp(prefix="rgv_c20_")
    try:
        path = os.path.join(d, "page.md")
        with open(path, "w") as f:
            f.write(text)
        code, lines = run_cli(path)
        lines = [ln.replace(path, "page.md") for ln in lines]
    finally:
        shutil.rmtree(d, ignore_errors=True)
    got: List[Tuple[str, str]] = []
    viol = None
    for ln in lines:
        m = re.match(r"^(?P<page>.*?): Warning: (?P<d>.*) \[(?P<k>[a-z_]+)\]$", ln, flags=re.S)
        pm = PATTERNS[m.group("k")].match(m.group("d")) if m and m.group("k") in PATTERNS else None
        if pm is None:
            viol = f"unexpected output line of recipe-grid-lint: {ln!r}"
            break
        got.append((m.group("k"), pm.group("n")))
    if viol is None and not ambiguous:
        if sorted(got) != sorted(expected):
            viol = (f"recipe-grid-lint printed {sorted(got)} for a page of {len(recipes_src)} independent recipes whose "
                    f"documented verdicts, recipe by recipe, are {sorted(expected)}")
        elif (code == 1) != bool(expected) or code not in (0, 1):
            viol = f"recipe-grid-lint exit status {code} with {len(expected)} warnings"
    return Case(input={"cli_page": recipes_src}, coq_in="tt", coq_out="tt", impl={"exit": code, "lines": lines},
                violation=viol, nontrivial=True,
                tags=["cli-page", f"recipes-{len(recipes_src)}"] + ["cli-" + k for k, _ in got] or ["cli-clean"])


CLI_HAND = [
    [["2 eggs\nfry(1/2 of the eggs, oil)\nboil(remaining eggs)\n"],
     ["2 eggs\nmeringue = whisk(1/2 of the eggs, sugar)\nbatter = mix(1/2 of the eggs, flour, milk)\n"]],
    [["2 eggs\nfry(1/2 of the eggs, oil)\nboil(remaining eggs)\n"], ["2 eggs\n1 can of spam\nfry(egg, spam)\n"]],
]


def mk_cli_suite() -> Suite:
    return Suite(name="lintcli", imports=[], in_ty="unit", out_ty="unit", check="(fun _ _ => true)", shard=2000)


def mk_suite() -> Suite:
    return Suite(name="lint", imports=IMPORTS, in_ty="(option num * list (list node))", out_ty="(lres (list lint))",
                 check="check_lint", show="lint_scaled", shard=60)


def gen_scale(rng: random.Random) -> Any:
    return rng.choice([2, 3, 10, 7, Fraction(1, 2), Fraction(1, 3), Fraction(2, 3), Fraction(1, 10), Fraction(3, 7),
                       Fraction(5, 4), Fraction(1, 7), Fraction(1, 49), Fraction(7, 3), 0.5, 1.5, 0.1, 3.3,
                       Fraction(1, 10 ** 7), Fraction(1, 10 ** 9), Fraction(3, 10 ** 8), 1e-9, 10 ** 6])


def suites(tier: str, seed: int) -> List[Suite]:
    su = mk_suite()
    cli = mk_cli_suite()
    if tier == "replay":
        return [su, cli]
    rng = random.Random(seed * 7919 + 20)
    ntarget, nrandom = (350, 150) if tier == "quick" else (6000, 3000)
    from ..gen.programs import gen_program, spell
    jobs: List[Tuple[List[str], str]] = [(h, "hand") for h in HAND]
    for _ in range(ntarget):
        jobs.append(build_program(rng))
    for _ in range(nrandom):
        jobs.append((spell(gen_program(rng), rng), "random-program"))
    for texts, ks in HAND_SCALED:
        st, recipes = C08._compile_job(texts)
        for k in ks:
            su.cases.append(make_case(texts, recipes, k, "hand"))
    for texts, k in STRICT_INVARIANCE:
        st, recipes = C08._compile_job(texts)
        su.cases.append(make_case(texts, recipes, k, "hand", strict=True))
    # sequences of recipes linted one after the other in ONE process (this one), sharing value-identical lines
    for _ in range(40 if tier == "quick" else 600):
        seq = build_shared_recipes(rng)
        for i, texts in enumerate(seq):
            st, recipes = C08._compile_job(texts)
            if st != "ok":
                raise AssertionError(f"sequence recipe does not compile: {texts!r}: {recipes}")
            su.cases.append(make_case(texts, recipes, None, "sequence", after=seq[:i]))
    results = C08.compile_many([t for t, _ in jobs])
    for (texts, tag), (st, recipes) in zip(jobs, results):
        if st != "ok":
            if tag != "random-program" and recipes not in ("NameRedefinedError", "ProportionGivenForIngredientError"):
                raise AssertionError(f"targeted program does not compile: {texts!r}: {recipes}")
            continue
        su.cases.append(make_case(texts, recipes, None, tag))
        for _ in range(2 if tag != "random-program" else 1):
            su.cases.append(make_case(texts, recipes, gen_scale(rng), tag))
    # the command itself, on pages with several independent recipes
    for page in CLI_HAND:
        cli.cases.append(cli_case(page))
    for _ in range(40 if tier == "quick" else 400):
        cli.cases.append(cli_case(build_shared_recipes(rng)))
    return [su, cli]


def replay(inp: Any) -> Case:
    if isinstance(inp, dict) and "cli_page" in inp:
        return cli_case(inp["cli_page"])
    st, val = C08._compile_job(inp["sources"])
    if st != "ok":
        raise ValueError(f"sources no longer compile: {val}")
    if inp.get("after"):
        k = c.num_unjson(inp["k"]) if inp.get("k") is not None else None
        return make_case(inp["sources"], val, k, "replay", after=inp["after"])
    if inp.get("scale") is not None:      # {"sources": [...], "scale": num}: invariance demanded literally
        return make_case(inp["sources"], val, c.num_unjson(inp["scale"]), "replay", strict=True)
    k = c.num_unjson(inp["k"]) if inp.get("k") is not None else None
    return make_case(inp["sources"], val, k, "replay")


def remainder_points(recipes: List[Any]) -> Dict[str, List[Tuple[Fraction, float]]]:
    """For every output name: (exact sum, the implementation's float accumulation) just before each remainder use,
    replaying lint.py's arithmetic in Python floats.  Outputs with a problem before the remainder are left out."""
    import recipe_grid.recipe as R
    from recipe_grid.units import UNIT_SYSTEM
    groups: List[Tuple[Any, Dict[int, List[Any]]]] = []

    def visit(n: Any) -> None:
        if isinstance(n, R.Reference):
            for k, d in groups:
                if k == n.sub_recipe:
                    d.setdefault(n.output_index, []).append(n)
                    break
            else:
                groups.append((n.sub_recipe, {n.output_index: [n]}))
        elif isinstance(n, R.SubRecipe):
            visit(n.sub_tree)
        elif isinstance(n, R.Step):
            for i in n.inputs:
                visit(i)

    for r in recipes:
        for t in r.recipe_trees:
            visit(t)
    out: Dict[str, List[Tuple[Fraction, float]]] = {}
    for sr, per in groups:
        for idx, refs in per.items():
            name = str(sr.output_names[idx])
            total = _total(sr)
            exact, fl = Fraction(0), 0.0
            pts: List[Tuple[Fraction, float]] = []
            ok = True
            for ref in refs:
                a = ref.amount
                if isinstance(a, R.Quantity):
                    if total is None or total.value == 0:
                        ok = False
                        break
                    try:
                        if a.unit is not None and total.unit is not None:
                            conv: Any = UNIT_SYSTEM.convert_between(a.unit.lower(), total.unit.lower())
                        elif a.unit is None and total.unit is None:
                            conv = 1
                        else:
                            raise KeyError()
                    except KeyError:
                        ok = False
                        break
                    exact += Fraction(a.value) * Fraction(conv) / Fraction(total.value)
                    fl += (a.value * conv) / total.value
                elif a.value is None:
                    pts.append((exact, fl))
                    exact, fl = max(Fraction(1), exact), max(1.0, fl)
                else:
                    exact += Fraction(a.value)
                    fl += a.value
            if ok:
                out.setdefault(name, []).extend(pts)
    return out


def match_float_conversion_invariance(case: Case) -> bool:
    """The verdict kinds differ between scale 1 and scale k (exact data, exact positive k), at least one use/total pair
    is converted through a float factor (lb, oz <-> g, kg; cup; pint), and nothing else is wrong at scale k."""
    inp = case.input
    kj = inp.get("scale") if inp.get("scale") is not None else inp.get("k")
    if kj is None:
        return False
    k = c.num_unjson(kj)
    if isinstance(k, float) or k <= 0:
        return False
    st, recipes = C08._compile_job(inp["sources"])
    if st != "ok" or has_floats(recipes):
        return False
    base = run_lint(recipes)
    scaled_recipes = [r.scale(k) for r in recipes]
    scaled = run_lint(scaled_recipes)
    if base[0] != "ok" or scaled[0] != "ok":
        return False
    if sorted(x for x, _ in base[1]) == sorted(x for x, _ in scaled[1]):
        return False
    _spec, _amb, float_conv = lint_spec(recipes)
    if not float_conv:
        return False
    spec_k, amb_k, _fc = lint_spec(scaled_recipes)
    if not amb_k and sorted(spec_k) != sorted(scaled[1]):
        return False        # a decisive disagreement with the documented verdicts: a different defect
    return True


def known_match(finding: Any, case: Case) -> bool:
    if finding.get("matches") == "scale_invariance_float_conversion":
        return match_float_conversion_invariance(case)
    if finding.get("matches") != "remainder_after_exact_full_use_float_sum_below_one":
        return False
    inp = case.input
    st, recipes = C08._compile_job(inp["sources"])
    if st != "ok":
        return False
    kj = inp.get("k") if inp.get("k") is not None else inp.get("scale")
    if kj is not None:
        recipes = [r.scale(c.num_unjson(kj)) for r in recipes]
    res = run_lint(recipes)
    if res[0] != "ok":
        return False
    spec, _amb, _fc = lint_spec(recipes)
    impl = list(res[1])
    missing = list(spec)
    extra = []
    for x in impl:
        if x in missing:
            missing.remove(x)
        else:
            extra.append(x)
    if not missing:
        return False
    pts = remainder_points(recipes)
    names = set()
    for kind, name in missing:
        if kind != "sub_recipe_reference_non_positive_remainder":
            return False
        # this output has a remainder reached with the uses adding up to exactly 1 while the float sum is below 1.0
        if not any(e == 1 and f < 1.0 for e, f in pts.get(name, [])):
            return False
        names.add(name)
    # the only other difference allowed: the final verdict the implementation then still computes for that output
    return all(kind in ("sub_recipe_not_used_up", "sub_recipe_used_too_much") and name in names for kind, name in extra)


THEOREMS.update({
    "C20_smoke": "example",
    "C20_no_crash": "full",
    "C20_no_crash_sane": "full",
    "C20_no_crash_ex": "example",
    "C20_conversion_total": "full",
    "C20_no_index_error": "full",
    "C20_terminates": "full",
    "C20_terminates_ex": "example",
    "C20_unused_iff": "full",
    "C20_unused_set": "full",
    "C20_verdict_spec": "full",
    "C20_verdict_spec_ex2": "example",
    "C20_verdict_spec_partial": "partial",
    "C20_decisive_tolerance": "full",
    "C20_verdict_spec_ex": "example",
    "C20_exact_full_use_remainder_refuted": "refuted",
    "C20_scale_invariant_exact": "full",
    "C20_scale_invariant_exact_ex": "example",
    "C20_scale_invariant_float_conversion_refuted": "refuted",
    "C20e2e_numbers_from_program": "full", "C20_compiled_no_index_error": "full", "C20_compiled_scaled_no_index_error": "full", "C20_compiled_lint_total": "full", "C20_compiled_lint_total_syntactic": "full", "C20_compiled_no_zero_division": "full", "C20_compiled_scaled_lint_total": "full", "C20_compiled_iter_scaled_lint_total": "full", "C20_source_lint_total": "full", "C20_source_scaled_lint_total": "full", "C20e2e_hyps": "example", "C20e2e_instance": "example",
})
