"""C13, whole-document correspondence: compile_markdown(text).render(k) against the Markdown model with its oracles
INSTANTIATED by the models of the compiler (parse + compile, Model/Parser.v compile_src) and of the table renderer
(Model/RenderTree.v through Model/RenderDoc.v render_block_fast) instead of the recorded tables of suite `markdown`.
Only marko's own part (the flat sequence of pieces, alt-text escaping) is still taken from the run.
Merged into the C13 check (MERGE in C13.py); theorems: Props/C13doc.v."""
from __future__ import annotations

import os
import dataclasses
from typing import Any, List, Optional, Tuple

from .. import coqio as c
from ..api import Case, Suite
from . import C13

ID = "C13full"
PROPS_FILE = "Props/C13doc.v" if os.path.exists(os.path.join(c.COQ_DIR, "Props/C13doc.v")) else "Props/C13.v"
GEN_DEPS: List[str] = ["GenUnits", "GenGrammar"]
ALLOWED_AXIOMS: List[str] = []
THEOREMS: dict = {}
if PROPS_FILE.endswith("C13doc.v"):
    THEOREMS = {
        "C13doc_instances": "full", "C13_model_document": "full", "C13doc_block_renders": "full",
        "C13doc_blocks_of_document": "full", "C13doc_example": "example",
    }
TRUSTED = ["Model/RenderDoc.v: the Markdown model's oracles instantiated with compile_src and render_recipe_tree_model; the "
           "oracle interface is total, so a block whose scaling / rendering leaves the models yields a marker text (suite "
           "`fulldoc` compares whole pages string-exactly inside Coq)"]
ASSUMPTIONS: List[str] = []
RULE = ("fulldoc suite: the generated and hand-written documents of suite `markdown` (a sample), each at its scales: title, "
        "servings, recipes and the whole page text compared with the fully instantiated model, plus spec_render and Fresh")


def _full(case: Optional[Case]) -> Optional[Case]:
    if case is None:
        return None
    inp = dict(case.input) if isinstance(case.input, dict) else {"text": case.input}
    inp["fulldoc"] = True
    return dataclasses.replace(case, input=inp, tags=["fulldoc"] + [t for t in case.tags if t.startswith(("recipe-blocks", "groups", "title"))])


def _one(args: Tuple[int, int]) -> Optional[Case]:
    return _full(C13._one_doc(args))


def suites(tier: str, seed: int) -> List[Suite]:
    from ..compile_common import pmap
    su = Suite(name="fulldoc",
               imports=["From RG Require Import Gen.GenChars Model.Recipe Model.Brace Model.Markdown Spec.MarkdownSpec Model.RenderDoc."],
               in_ty="md_in", out_ty="md_outcome", check="check_md_full", show="show_md_full", shard=6)
    if tier == "replay":
        return [su]
    n = 90 if tier == "quick" else 1200
    cases = pmap(_one, [(seed + 7, i) for i in range(n)])
    su.cases = [x for x in cases if x is not None]
    su.cases += [x for x in (_full(C13._one_hand(t)) for t in C13.HAND_DOCS) if x is not None]
    return [su]


def replay(inp: Any) -> Case:
    if not (isinstance(inp, dict) and inp.get("fulldoc")):
        raise ValueError("not a fulldoc input")
    inp2 = {k: v for k, v in inp.items() if k != "fulldoc"}
    case = _full(C13.replay(inp2))
    assert case is not None
    return case


def known_match(finding: Any, case: Case) -> bool:
    return False
