"""C07 - any input yields a recipe or a documented, located error - never a crash.

Correspondence (suite `outcome`): Model/Parser.v `compile_src` (= parse every block with the grammar interpreter, then
Model/Compiler.v) against recipe_grid.compiler.compile / recipe_grid.markdown.compile_markdown on valid texts, sampled
prefixes and suffixes, single/double edits, random Unicode, deep nesting (<= 30), long inputs, Markdown wrappers.
Compared inside Coq: outcome class; for an accepted input the compiled recipes (object graph incl. number types);
for a compile error its kind and the offset of the token it points at.
Oracle (independent of the model): no exception other than peggie.ParseError / RecipeCompileError escapes; the error's
line exists in the offending source, its column is within or just past that line, the snippet is that line; for
generated descriptions the compile error points at the redefining name / the offending amount (reference reading
rgv.oracles.spec_compile); every call returns within 30 s.
"""
from __future__ import annotations

import copy
import random
import re
import time
from typing import Any, Dict, List, Optional, Tuple

from .. import coqio as c
from .. import ser
from .. import compile_common as CC
from ..api import Case, Suite
from ..gen import programs as P
from ..gen import mutate as M
from . import C06

ID = "C07"
MERGE = ["C07prompt"]   # promptness / crash search streams (coordinator)
PROPS_FILE = "Props/C07.v"
PROPS_EXTRA = ["Props/C07e2e.v"]   # end-to-end corollaries (coordinator)
GEN_DEPS = ["GenGrammar", "GenUnits"]
ALLOWED_AXIOMS: List[str] = []
THEOREMS: Dict[str, str] = {
    "C07_pipeline_crash_only_overflow": "full", "C01_source_meets_spec_partial": "partial", "parse_blocks_no_compile_crash": "full",
    "C07_smoke": "example",
    "C07_no_crash_partial": "partial", "C07_no_crash_partial_ex": "example",
    "C07_overflow_refuted": "refuted", "C07_308_digits_fine": "example",
    "C07_fuel_suffices": "full",
    "C07_position_wellformed": "full",
    "C07_error_points_at_token": "full", "C07_src_error_points_at_token": "full", "C07_error_points_ex": "example",
}
TRUSTED = C06.TRUSTED[:4] + [
    "Model/Compiler.v + Model/CompilerInst.v (compile_ast over the generated unit table) as tied by C01/C05/C08",
    "Markdown: marko's own conversion is outside the model; the recipe sources handed to compile() are captured from the real "
    "pipeline (get_line_number_corrected_source included) and the model is run on exactly those",
    "promptness, the interpreter recursion limit and crashes inside marko / peggie internals cannot be exhibited by the model and "
    "are only searched for (oracle: wall-clock per call, exception type)",
]
ASSUMPTIONS = ["nesting depth <= 30 and length <= 20 kB (property text)",
               "float quantities above ~1e290 combined with a unit conversion are not generated: CPython's float*int overflows to inf "
               "without an exception while Model/Compiler.v's finite number model reports NumericOverflow (accepted out-of-range limitation)",
               "texts containing U+03A3 (context dependent lower-casing) are not generated",
               "syntax error positions are checked for well-formedness only (peggie's furthest-failure bookkeeping is not modelled)"]
RULE = ("valid multi-block descriptions (rgv.gen.programs, 8% deliberately erroneous: redefinitions, proportions of unknown names); "
        "sampled prefixes and suffixes of valid texts; 1-2 edits (char/token delete, insert, duplicate, swap, replace, shuffle); random "
        "Unicode incl. astral, combining, control characters and every \\s / line-break code point; nesting to depth 30 (closed, unclosed, "
        "parenthesised shorthand); long inputs (quick <= 4 kB, thorough <= 20 kB); numeric literals of 15..4301 digits; Markdown documents "
        "with indented recipe blocks, prose with {..} expressions, images and links; Markdown documents whose prose before a faulty "
        "(indented or fenced) block holds line boundaries of str.splitlines other than LF / CRLF (FF, VT, FS, GS, RS, NEL, U+2028, "
        "U+2029, lone CR) - for every Markdown error: the named line exists (splitlines convention), the snippet is the end of that "
        "document line (container prefix / indentation removed), the column lies within the snippet or just past it; non-trivial = not (accepted with a single plain "
        "ingredient); distinct = distinct input text")

SIGMA = "Σ"
LIMIT_TERM = 150_000          # larger compiled results are compared by outcome class only
_BIG = re.compile(r"[0-9]{309,}")


# --------------------------------------------------------------------------- observing compile()

def _position_ok(texts: List[str], e: Any) -> Optional[str]:
    """line exists, column within or just past the line (terminator included), snippet is that line - in SOME block"""
    why = "no source"
    for t in texts:
        lines = t.splitlines(keepends=True)
        n = max(1, len(lines))
        if not (1 <= e.line <= n):
            why = f"line {e.line} outside 1..{n}"
            continue
        cur = lines[e.line - 1] if lines else ""
        if not (1 <= e.column <= len(cur) + 1):
            why = f"column {e.column} outside 1..{len(cur) + 1} of line {e.line}"
            continue
        plain = t.splitlines()
        want = plain[e.line - 1] if plain else ""
        if e.snippet != want:
            why = f"snippet {e.snippet!r} is not line {e.line} ({want!r})"
            continue
        return None
    return why


def observe(texts: List[str], prog: Any = None) -> Tuple[str, Any, Optional[str], List[str]]:
    """-> (Gallina term : sobs, JSON, oracle verdict, tags)"""
    from recipe_grid.compiler import compile, NameRedefinedError, ProportionGivenForIngredientError, RecipeCompileError
    from peggie import ParseError
    from peggie.error_message_generation import extract_line
    inf_first = False
    if any(_BIG.search(t) for t in texts):
        for t in texts:
            term, _js, _e = C06.observe_parse(t)
            if term.startswith("(ObsAst"):
                continue
            inf_first = term == "(ObsCrash InfFloat)"
            break
    t0 = time.perf_counter()
    try:
        rs = compile(list(texts))
        exc: Any = None
    except BaseException as e:      # noqa: BLE001 - the point of the property
        if isinstance(e, (KeyboardInterrupt, SystemExit)):
            raise
        rs, exc = None, e
    dt = time.perf_counter() - t0
    viol: Optional[str] = None
    tags: List[str] = []
    if dt > 30:
        viol = f"compile took {dt:.1f} s"
    if exc is None:
        tags.append("accepted")
        if inf_first:
            term = "SObsInf"
        else:
            try:
                term = f"(SObsOk {ser.blocks(rs)})"
                if len(term) > LIMIT_TERM:
                    term = "SObsOkAny"
            except (AssertionError, OverflowError, ValueError):
                term = "SObsInf"
        js: Any = {"outcome": "Ok", "trees": [len(r.recipe_trees) for r in rs], "s": round(dt, 3)}
        if prog is not None and viol is None:
            viol = CC.oracle_c01(prog, texts, rs)
    elif isinstance(exc, ParseError):
        tags.append("ParseError")
        term = "SObsInf" if inf_first else "SObsSyntax"
        js = {"outcome": "ParseError", "line": exc.line, "column": exc.column, "snippet": exc.snippet[:80], "s": round(dt, 3)}
        viol = viol or (lambda w: f"ParseError position malformed: {w}" if w else None)(_position_ok(texts, exc))
        if prog is not None and viol is None:
            viol = "a permitted spelling of a description is a syntax error"
    elif isinstance(exc, (NameRedefinedError, ProportionGivenForIngredientError)):
        kind = "NameRedefined" if isinstance(exc, NameRedefinedError) else "ProportionGiven"
        tags.append(kind)
        cands = []
        for b, t in enumerate(texts):
            off = CC.line_col_to_off(t, exc.line, exc.column)
            if off is None:
                continue
            try:
                if extract_line(t, exc.line) != exc.snippet:
                    continue
            except IndexError:
                continue
            cands.append((b, off))
        term = "SObsInf" if inf_first else f"(SObsErr {kind} {c.lst([c.pair(c.nat(b), c.n_(o)) for b, o in cands], '(nat * N)')})"
        js = {"outcome": kind, "line": exc.line, "column": exc.column, "snippet": exc.snippet[:80], "s": round(dt, 3)}
        viol = viol or (lambda w: f"{kind} position malformed: {w}" if w else None)(_position_ok(texts, exc))
        if prog is not None and viol is None:
            viol = CC.oracle_c01(prog, texts, exc)
    else:
        name = type(exc).__name__
        tags.append("exception:" + name)
        if isinstance(exc, RecipeCompileError):
            term = "(SObsExn EOtherExn)"
        elif isinstance(exc, OverflowError):
            term = "(SObsExn EOverflow)"
        elif isinstance(exc, ValueError):
            term = "(SObsExn EValue)"
        else:
            term = "(SObsExn EOtherExn)"
        js = {"outcome": "exception", "type": name, "msg": str(exc)[:160], "s": round(dt, 3)}
        viol = f"compile raised {name}: {str(exc)[:120]}"
    return term, js, viol, tags


IMPORTS = ["From RG Require Import Model.Recipe Model.Compiler Model.Parser."]


def make_case(texts: List[str], kind: str, prog: Any = None) -> Case:
    term, js, viol, tags = observe(texts, prog)
    trivial = term.startswith("(SObsOk") and term.count("Ingredient") == 1 and "Step" not in term and "Some" not in term
    inp: Dict[str, Any] = {"sources": texts, "kind": kind}
    if prog is not None:
        inp["program"] = prog
    return Case(input=inp, coq_in=c.lst([c.string(t) for t in texts], "str"), coq_out=term, impl=js, violation=viol,
                nontrivial=not trivial, tags=[kind.split("+")[0]] + tags)


# --------------------------------------------------------------------------- Markdown

def observe_markdown(md: str) -> Tuple[List[str], str, Any, Optional[str], List[str]]:
    """Runs compile_markdown with compile() wrapped so that the sources it receives are recorded."""
    import recipe_grid.markdown as MD
    import recipe_grid.compiler as RC
    from peggie import ParseError
    calls: List[List[str]] = []
    outcome: Dict[str, Any] = {}
    real = RC.compile

    def spy(sources: List[str]) -> Any:
        calls.append(list(sources))
        return real(sources)

    old = MD.compile
    MD.compile = spy
    t0 = time.perf_counter()
    try:
        try:
            MD.compile_markdown(md)
            exc: Any = None
        except BaseException as e:      # noqa: BLE001
            if isinstance(e, (KeyboardInterrupt, SystemExit)):
                raise
            exc = e
    finally:
        MD.compile = old
    dt = time.perf_counter() - t0
    sources = calls[-1] if calls else []
    # what compile() itself does on those sources (same classification as the plain suite)
    term, js, viol, tags = observe(sources)
    js = dict(js, markdown=True)
    if len(calls) > 1:
        tags.append("several-compile-calls")
    if exc is None:
        if "accepted" not in tags:
            viol = viol or "compile_markdown returned although compile() of its blocks fails"
    else:
        name = type(exc).__name__
        documented = isinstance(exc, (ParseError, RC.RecipeCompileError))
        if not documented and not _marko_converts(md):
            # outside the property's quantifier: the CommonMark converter cannot convert the document itself
            tags.append("marko-cannot-convert")
            term = "SObsOkAny" if not sources else term
        elif not documented:
            viol = f"compile_markdown raised {name}: {str(exc)[:120]}"
            term = ("(SObsExn EOverflow)" if isinstance(exc, OverflowError) else
                    "(SObsExn EValue)" if isinstance(exc, ValueError) else "(SObsExn EOtherExn)")
            js = dict(js, outcome="exception", type=name)
            tags.append("exception:" + name)
        else:
            pos = [exc.line, exc.column, getattr(exc, "snippet", None)]
            js = dict(js, position=pos if all(isinstance(x, (int, str)) for x in pos) else None, exc_name=name)
            viol = viol or md_position_violation(md, name, *pos)
    if dt > 30:
        viol = viol or f"compile_markdown took {dt:.1f} s"
    return sources, term, js, viol, tags


def md_position_violation(md: str, name: str, line: Any, column: Any, snippet: Any) -> Optional[str]:
    """The property's wording for an error in a Markdown document, under the tool's own line convention
    (str.splitlines, as peggie's offset_to_line_and_column / extract_line): the named line exists, the quoted
    snippet is that line's recipe text (the document line with its container prefix / indentation removed,
    so the snippet is the END of the document line), the column lies within the snippet or just past it."""
    lines = md.splitlines()
    nl = len(lines)
    if not isinstance(line, int) or not isinstance(column, int) or not isinstance(snippet, str):
        return f"{name} carries no line/column/snippet: {line!r} {column!r} {snippet!r}"
    if not (1 <= line <= max(1, nl)):
        return f"{name} reported at line {line} column {column} of a {nl}-line document"
    named = lines[line - 1] if nl else ""
    # CommonMark removes the indentation of an indented code block with tabs behaving as if expanded to the next
    # tab stop, so leading blanks of the snippet may stand for part of a tab of the document line; everything
    # from the first non-blank character on must be the document line's own text, up to its end
    core = snippet.lstrip(" \t")
    if not named.endswith(core) or named[:len(named) - len(core)].strip(" \t>") != "":
        return f"{name} names line {line}, which reads {named!r}, but quotes {snippet!r}"
    # one past the line's terminator at most (C07_position_wellformed; "\r\n" is normalised to "\n")
    if not (1 <= column <= len(snippet) + 2):
        return f"{name} reported at column {column} of the {len(snippet)}-character snippet {snippet!r}"
    return None


def _marko_converts(md: str) -> bool:
    import marko
    try:
        marko.Markdown()(md)
        return True
    except Exception:
        return False


def make_md_case(md: str, kind: str) -> Case:
    sources, term, js, viol, tags = observe_markdown(md)
    return Case(input={"markdown": md, "kind": kind}, coq_in=c.lst([c.string(t) for t in sources], "str"), coq_out=term,
                impl=js, violation=viol, nontrivial=True, tags=["markdown", kind] + tags)


PROSE = ["Spam and eggs", "Serves {4} or {1/2} of that.", "Mix {1 1/2} cups; it's 100% fine", "see *below* for `details`",
         "A [link {2}](http://x/y) here", "Crème fraîche & co", "> quoted {3} text", "* item {0.5}", "1. first", "Some text: with colon",
         "{not closed", "closed} only", "{a\\}b}", "{1/0}", "{00/00}", "{1 /2}", "\\{2\\}", "<b>{2}</b>", "`{2}`", "{}", "{{2}}",
         "# Title for {2}", "## Sub {1/3} heading", "Line with trailing backslash\\", "tab\there", "{2}{3}", "{ 2 }", "{2 eggs}"]
F3_PROSE = ["![a {2} b](x.png)", "![{1/2}](y.jpg)", "![x](z.png \"t {3}\") and ![{2} {3/4} c](w.png)"]
PROSE = PROSE + F3_PROSE     # F3 (fixed in /repo): brace expressions inside image alt text must not raise


def gen_markdown(rng: random.Random, f3: bool = False) -> str:
    prog = P.gen_program(rng, max_blocks=3, max_stmts=3, max_depth=3)
    texts = P.spell(prog, rng)
    out: List[str] = []
    if rng.random() < 0.7:
        out += ["# " + rng.choice(["Pie for 2", "Stew", "Soup {serves 3}", "Cake to make 4"]), ""]
    for t in texts:
        for _ in range(rng.randrange(0, 3)):
            out += [rng.choice(F3_PROSE) if f3 and rng.random() < 0.5 else rng.choice(PROSE), ""]
        if rng.random() < 0.25:
            kind, t = M.mutate_once(t, rng)
        ind = rng.choice(["    ", "    ", "\t", "     "])
        for line in t.split("\n"):
            out.append(ind + line if line.strip() else line)
        out.append("")
    if rng.random() < 0.5:
        out.append(rng.choice(F3_PROSE) if f3 else rng.choice(PROSE))
    eol = rng.choice(["\n", "\n", "\r\n"])
    return eol.join(out) + (eol if rng.random() < 0.8 else "")


# Line boundaries of str.splitlines other than "\n" / "\r\n" (the convention of every error line of the tool).
MD_SEPARATORS = ["\x0c", "\x0b", "\x1c", "\x1d", "\x1e", "\x85", "\u2028", "\u2029", "\r"]
MD_FAULTY = ["stock = boil(bones,,)", "stock = boil(bones)\n1/2 of broth", "stock = boil(bones)\nstock = fry(more bones)",
             "soup = simmer(leek\n", "a = b = c", "x := 50% y"]


def md_block(src: str, fenced: bool, ind: str = "    ") -> str:
    if fenced:
        return "```recipe\n" + src + ("" if src.endswith("\n") else "\n") + "```\n"
    return "".join((ind + ln if ln.strip() else ln) + "\n" for ln in src.split("\n") if ln or True).rstrip("\n") + "\n"


def md_sep_document(sep: str, faulty: str, fenced: bool, where: int, n_sep: int = 1) -> str:
    """A document whose text BEFORE the faulty block holds [n_sep] unusual line boundaries: in the prose
    (where = 0), between two blocks (1), at the end of a heading line (2) or inside an earlier block's
    neighbourhood as a line of its own (3)."""
    seps = sep * n_sep
    bad = md_block(faulty, fenced)
    if where == 0:
        return "Soup\n====\n\nPage one." + seps + "Page two.\n\n" + bad
    if where == 1:
        return md_block("base = boil(water)", fenced) + "\nThen" + seps + "later:\n\n" + bad
    if where == 2:
        return "# Soup" + seps + "\n\nSome prose.\n\n" + bad + "\nTrailing prose.\n"
    return "Intro" + seps + "\n" + seps + "\nmore prose\n\n" + md_block("base = boil(water)", not fenced) + "\nend" + seps + "\n\n" + bad


def md_sep_hand() -> List[str]:
    out = []
    for sep in MD_SEPARATORS:
        for k, faulty in enumerate(MD_FAULTY):
            for where in range(4):
                out.append(md_sep_document(sep, faulty, (k + where) % 2 == 0, where, 1 + (k + where) % 3 // 2))
    return out


def gen_markdown_sep(rng: random.Random) -> str:
    """Random document of the ordinary stream with unusual line boundaries sprinkled into its prose lines and a
    faulty block at the end."""
    md = gen_markdown(rng)
    lines = md.split("\n")
    for _ in range(rng.randrange(1, 4)):
        k = rng.randrange(len(lines))
        ln = lines[k]
        if ln.strip() and not ln.startswith((" ", "\t", "```")) and not ln.endswith("\r"):
            j = rng.randrange(len(ln) + 1)
            lines[k] = ln[:j] + rng.choice(MD_SEPARATORS) * rng.choice([1, 1, 2]) + ln[j:]
        else:
            lines.insert(k, "prose" + rng.choice(MD_SEPARATORS) + "more")
            lines.insert(k + 1, "")
    md = "\n".join(lines)
    if not md.endswith("\n"):
        md += "\n"
    return md + "\n" + md_block(rng.choice(MD_FAULTY), rng.random() < 0.5, rng.choice(["    ", "\t", "     "]))


# --------------------------------------------------------------------------- generators

def _clean(t: str) -> str:
    return t.replace(SIGMA, "S")


def nest(rng: random.Random, depth: int) -> str:
    style = rng.randrange(6)
    leaf = rng.choice(["x", "1 kg x", "1/2 of y", "'q'", "{2} z"])
    sp = lambda: rng.choice(["", "", " ", "\n", "\n  "])
    if style == 0:        # f(f(f(x)))
        return "".join(f"s{i}{sp()}({sp()}" for i in range(depth)) + leaf + "".join(sp() + ")" for _ in range(depth))
    if style == 1:        # unclosed
        k = rng.randrange(0, depth + 1)
        return "".join(f"s{i}(" for i in range(depth)) + leaf + ")" * k
    if style == 2:        # ((((x))))
        return "(" * depth + leaf + ")" * depth
    if style == 3:        # ((((x, a), b), c) ...
        return "(" * depth + leaf + "".join(f", a{i})" for i in range(depth))
    if style == 4:        # wide and deep
        t = leaf
        for i in range(depth):
            t = f"m{i}({t}, {rng.choice(['salt', '2 eggs', '10% of w'])}{rng.choice(['', ',', ' ,'])})"
        return t
    t = leaf              # too many closers / commas
    for i in range(depth):
        t = f"n{i}({t})"
    return t + rng.choice([")", ",", ",,", "(", ")(", ""])


def long_text(rng: random.Random, size: int) -> List[str]:
    out: List[str] = []
    total = 0
    texts: List[str] = []
    while total < size:
        prog = P.gen_program(rng, max_blocks=1, max_stmts=6, max_depth=3, error_rate=0.0)
        t = P.spell(prog, rng)[0]
        # keep names distinct between chunks so that the text stays valid most of the time
        k = len(texts)
        t = re.sub(r"\b(spam|eggs|ham|sauce|cheese|onion|stock|rice|mix|dough|veg)\b", lambda m: m.group(0) + f"q{k}", t)
        if not t.endswith("\n"):
            t += "\n"
        texts.append(t)
        total += len(t)
    joined = "".join(texts)[:size] if rng.random() < 0.3 else "".join(texts)
    if rng.random() < 0.3:
        _k, joined = M.mutate_once(joined, rng)
    return [joined]


def digit_cases(rng: random.Random, n: int) -> List[Tuple[str, List[str]]]:
    out = []
    for _ in range(n):
        k = rng.choice([15, 17, 20, 40, 100, 290, 300, 305, 308])
        d = rng.choice("123456789") + "".join(rng.choice("0123456789") for _ in range(k - 1))
        form = rng.randrange(8)
        if form == 0:
            t = f"x = {d} kg flour\nfry(1 g x)"
        elif form == 1:
            t = f"x = {d} flour\nfry({d} x)"
        elif form == 2:
            t = f"x = {d}/7 tsp flour\nfry(1 cup x)"
        elif form == 3:
            # float * scale overflowing to inf is no exception in CPython but leaves Model/Compiler.v's number model
            t = f"x = {d[:280]}.5 l water\nboil(1 ml x)"
        elif form == 4:
            t = f"{d}% of y"
        elif form == 5:
            t = f"y = z\nfry({d}% of y)"
        elif form == 6:
            t = f"x = 1/{d} kg flour\nfry(1 g x)"
        else:
            t = f"x {{{d}}} = y\nfry(x {{{d}}})"
        out.append(("digits", [t]))
    return out


HAND: List[List[str]] = [[t] for t in C06.HAND if SIGMA not in t] + [
    ["x = 1 a\nx = 2 b"], ["x = 1 a", "x = 2 b"], ["x = 1 a", "fry(1/2 of x)", "50% of y"], ["1/2 of x"], ["a\n\n50% x\n"],
    ["x, y = z\n'Y ' := w"], ["a = 1 x\nb, a = 2 y"], ["a = 1 x", "c, b , A = 2 y"], ["p = q\n  r,\tP  := s"], ["x = 1 kg a\nfry(1000 g x)"], ["x = 1 a\nfry(x), boil(x)"], ["\n\n\n a = b\n\n a = c"],
    ["a = b\r\na = c"], ["a = b\x0ba = c"], ["a = b\n\x85"], ["x = y\n" * 30], ["x = 9" + "0" * 305 + " kg foo\nfry(1 g x)"],
    ["x = " + "9" * 400 + "/7 foo\nfry(1 x)"], ["x = 1" + "0" * 400 + ".5 kg foo\nfry(1 g x)"], [], ["", ""], ["a", ""],
]


def _one(args: Tuple[int, int, str]) -> List[Case]:
    seed, i, tier = args
    rng = random.Random((seed * 1000003 + i) * 2 + 13)
    r = i % 20
    out: List[Case] = []
    if r < 3:                                   # valid (or deliberately erroneous) multi-block descriptions
        prog = P.gen_program(rng, **({} if r else dict(max_blocks=3, max_stmts=8, max_depth=3)))
        texts = [_clean(t) for t in P.spell(prog, rng)]
        out.append(make_case(texts, "valid", prog))
    elif r < 7:                                 # prefixes and suffixes
        prog = P.gen_program(rng, max_blocks=1, max_stmts=3, max_depth=3)
        t = _clean(P.spell(prog, rng)[0])
        for _ in range(3):
            k = rng.randrange(len(t) + 1)
            out.append(make_case([t[:k]], "prefix"))
            out.append(make_case([t[k:]], "suffix"))
    elif r < 14:                                # edits
        prog = P.gen_program(rng, max_blocks=rng.choice([1, 1, 2]), max_stmts=3, max_depth=3)
        texts = [_clean(t) for t in P.spell(prog, rng)]
        for _ in range(5):
            b = rng.randrange(len(texts))
            kind, m = next(M.mutations(texts[b], rng, 1))
            out.append(make_case(texts[:b] + [_clean(m)] + texts[b + 1:], kind))
    elif r < 16:                                # noise
        for _ in range(6):
            out.append(make_case([_clean(M.noise(rng, 60))], "noise"))
    elif r == 16:                               # nesting
        for _ in range(3):
            out.append(make_case([nest(rng, rng.choice([1, 2, 5, 10, 20, 29, 30]))], "nesting"))
    elif r == 17:                               # long
        size = rng.choice([1000, 2000, 4000]) if tier == "quick" else rng.choice([4000, 10000, 20000])
        out.append(make_case([_clean(t) for t in long_text(rng, size)], "long"))
    else:                                       # markdown
        for _ in range(2):
            out.append(make_md_case(_clean(gen_markdown(rng)), "md"))
        out.append(make_md_case(_clean(gen_markdown_sep(rng)), "md-sep"))
    return out


def _hand(args: Tuple[str, List[str]]) -> Case:
    if args[0] == "md-sep-hand":
        return make_md_case(args[1][0], args[0])
    return make_case(args[1], args[0])


def suites(tier: str, seed: int) -> List[Suite]:
    su = Suite(name="outcome", imports=IMPORTS, in_ty="list str", out_ty="sobs", check="check_outcome", show="compile_src",
               shard=120)
    if tier == "replay":
        return [su]
    n = {"quick": 700, "thorough": 8000}[tier]
    cases: List[Case] = []
    for batch in CC.pmap(_one, [(seed, i, tier) for i in range(n)]):
        cases.extend(batch)
    rng = random.Random(seed * 31337 + 5)
    extra = [("hand", t) for t in HAND] + digit_cases(rng, 40 if tier == "quick" else 400)
    extra += [("md-sep-hand", [d]) for d in md_sep_hand()]
    cases.extend(CC.pmap(_hand, extra))
    su.cases = cases
    return [su]


def replay(inp: Any) -> Case:
    if "markdown" in inp:
        return make_md_case(inp["markdown"], inp.get("kind", "replay"))
    return make_case(list(inp["sources"]), inp.get("kind", "replay"), inp.get("program"))


def known_match(finding: Any, case: Case) -> bool:
    """F2: OverflowError / ValueError for a numeric literal of >= 309 digits.
       F2b: OverflowError when a quantity of >= 290 digits is compared with another (has_equal_value_to).
       F3: AttributeError for a {..} expression inside image alt text (Markdown).
       markdown_cr_crlf_line_count: error line of a Markdown document counted in the CRLF-normalised text although
       "\\r\\r\\n" are two line boundaries of the document."""
    how = finding.get("matches")
    v = case.violation or ""
    inp = case.input
    texts = [inp["markdown"]] if "markdown" in inp else list(inp.get("sources", []))
    if how == "numeric_literal_309_digits":
        return (("raised OverflowError" in v or "raised ValueError" in v) and any(_BIG.search(t) for t in texts))
    if how == "quantity_comparison_overflow":
        return ("raised OverflowError" in v and ("too large for a float" in v or "too large to convert to float" in v)
                and any(re.search(r"[0-9]{290,}", t) for t in texts))
    if how == "markdown_cr_crlf_line_count":
        # CR directly before CRLF: normalising CRLF to LF leaves "\r\n" = ONE boundary where the document has two;
        # the position is right in the normalised text (and only there)
        pos = case.impl.get("position") if isinstance(case.impl, dict) else None
        return ("markdown" in inp and "\r\r\n" in inp["markdown"] and pos is not None and ("names line" in v or "reported at line" in v)
                and md_position_violation(inp["markdown"].replace("\r\n", "\n"), case.impl.get("exc_name", ""), *pos) is None)
    if how == "image_alt_scaled_value":
        return ("markdown" in inp and "raised AttributeError" in v
                and re.search(r"!\[[^\]\n]*\{[^\]\n]*\}[^\]\n]*\]\(", inp["markdown"]) is not None)
    return False


def search(seed: int, budget_s: float) -> List[Case]:
    """Bounded hunt for a concrete failing input (used by the driver when a proof / suite is broken)."""
    t0 = time.time()
    out: List[Case] = []
    k = 0
    while time.time() - t0 < budget_s and k < 40:
        for batch in CC.pmap(_one, [(seed + 17, 100000 + k * 300 + i, "quick") for i in range(300)]):
            out.extend(batch)
        k += 1
        if any(c.violation and not any(known_match({"matches": m}, c) for m in
               ("numeric_literal_309_digits", "quantity_comparison_overflow")) for c in out):
            break
    return out
