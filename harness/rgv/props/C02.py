"""C02 - the table is a faithful, gap-free drawing of the recipe tree."""
from __future__ import annotations

import random
from typing import Any, Dict, List, Optional, Tuple

from .. import coqio, ser
from ..api import Case, Suite
from ..gen import trees as G

ID = "C02"
PROPS_FILE = "Props/C02.v"
PROPS_EXTRA = ["Props/C02e2e.v", "Props/C02iter.v"]   # glue: compiler output is wf, so C02/C04 apply end to end (Proofs/PipelineWf.v)
GEN_DEPS: List[str] = []
ALLOWED_AXIOMS: List[str] = []
THEOREMS: Dict[str, str] = {
    "C02_tiling": "full",
    "C02_tiling_node": "full",
    "C02_layout_refines_spec": "full",
    "C02_exactly_once": "full",
    "C02_drawn_nodup": "full",
    "C02_geometry_table": "full",
    "C02_geometry_step": "full",
    "C02_geometry_header": "full",
    "C02_geometry_untitled": "full",
    "C02_geometry_leaf": "full",
    "C02_example_geometry": "example",
    "C02_borders": "full",
    "C02_readback": "full",
    "C02_canon_all_titled": "full",
    "C02_example_readback": "example",
    "C02_none_only_outputs": "full",
    "C02_outputs_cell": "full",
    "C02_example_spec": "example",
    "C02_example_wf": "example",
    "C02_example_table": "example",
    "C02e2e_parser_steps_nonempty": "full", "C02e2e_parser_blocks_steps_nonempty": "full", "C02e2e_compile_output_wf": "full", "C02e2e_compile_steps_nonempty": "full", "C02_compiled_trees_drawable": "full", "C02e2e_scale_keeps_skeleton": "full", "C02_compiled_scaled_trees_drawable": "full", "C02e2e_source_output_wf": "full", "C02_source_trees_drawable": "full", "C02e2e_example_hyps": "example", "C02e2e_example_skeletons": "example", "C02e2e_example_conclusion": "example", "C02e2e_example_drawable": "example", "C02e2e_hypothesis_needed": "example",
    "C02iter_skeletons_kept": "full", "C02_compiled_iter_scaled_trees_drawable": "full", "C02_source_iter_scaled_trees_drawable": "full", "C02_source_iter_scaled_same_tables": "full", "C02iter_example": "example",
}
TRUSTED = [
    "Coq 8.16.1 kernel (coqc; vm_compute for the correspondence only)",
    "Model/Table.v + Model/Layout.v are hand-written transcriptions of renderer/table.py and "
    "renderer/recipe_to_table.py (dict view + lookup function for the Cell/ExtendedCell array; overlapping or "
    "zero-span dicts are an explicit OutsideModel outcome, proved unreachable from well-formed trees)",
    "Spec/LayoutSpec.v is the formal reading of the property text: Tiling, explicit coordinates place/node_rect, "
    "the outline rule spec_cell(bordered_regions), drawn, decode/canon (what 'read back unambiguously' means: "
    "untitled single-output sub recipes whose outline coincides with an outline drawn anyway are erased by canon)",
    "Model/Layout.v ltree_of_node: the skeleton of a recipe node (suite `skeleton` compares it with the harness' "
    "own projection)",
    "correspondence harness: rgv/props/C02.py canonicalisation (cells located by object identity), "
    "rgv/gen/trees.py generators, in-Coq comparison check_layout",
]
ASSUMPTIONS = [
    "well-formed trees: every step has >= 1 input, sub recipes have >= 1 output name, multi-output sub recipes only "
    "at the root (the constructors of recipe.py enforce the last two; the parser the first)",
]
RULE = ("random recipe trees (arity 1..60, depth <= 12, up to ~500 leaves, titled/untitled single-output sub "
        "recipes nested in each other and inside wider siblings, multi-output roots, references as leaves, "
        "adversarial names) plus every shape with few nodes x every sub-recipe decoration; malformed stream: steps "
        "without inputs. Non-trivial = more than one cell; distinct = distinct skeleton")

KIND = {"ingredient": 0, "reference": 1, "step": 2, "header": 3, "outputs": 4}
BORDER = {"none": 0, "normal": 1, "sub_recipe": 2}
SENTINEL = 987654  # "could not be located": never equal to a model value


# ---------------------------------------------------------------- implementation side

def kind_of(value: Any) -> str:
    import recipe_grid.recipe as RR
    if isinstance(value, RR.Ingredient):
        return "ingredient"
    if isinstance(value, RR.Reference):
        return "reference"
    if isinstance(value, RR.Step):
        return "step"
    if isinstance(value, RR.SubRecipe):
        return "header" if len(value.output_names) == 1 else "outputs"
    return "?"


def observe(tree: Any) -> Dict[str, Any]:
    """Run recipe_tree_to_table and canonicalise the result (or the exception)."""
    from recipe_grid.renderer.recipe_to_table import recipe_tree_to_table
    from recipe_grid.renderer import table as T
    try:
        tb = recipe_tree_to_table(tree)
    except T.MissingCellError:
        return {"error": 2, "exc": "MissingCellError"}
    except T.EmptyTableError:
        return {"error": 3, "exc": "EmptyTableError"}
    except ValueError as e:
        if isinstance(e, T.InconsistentTableLayoutError):
            return {"error": 0, "exc": type(e).__name__}
        return {"error": 1, "exc": "ValueError: " + str(e)[:80]}
    except Exception as e:  # noqa
        return {"error": 0, "exc": type(e).__name__ + ": " + str(e)[:80]}
    return canon_table(tree, tb)


def _path_by_value(tree: Any, value: Any) -> Optional[Tuple[int, ...]]:
    """Fallback when a cell's value is not (by identity) a node of the tree: the path of the unique node of the
    same class that is equal to it (a value-equal copy is accepted as that node), else None."""
    hits: List[Tuple[int, ...]] = []
    stack: List[Tuple[Any, Tuple[int, ...]]] = [(tree, ())]
    while stack:
        node, p = stack.pop()
        try:
            if type(node) is type(value) and node == value:
                hits.append(p)
        except Exception:  # noqa
            pass
        for i, k in enumerate(G.children(node)):
            stack.append((k, p + (i,)))
    return hits[0] if len(hits) == 1 else None


def canon_table(tree: Any, tb: Any) -> Dict[str, Any]:
    from recipe_grid.renderer import table as T
    paths = G.paths_by_identity(tree)
    grid = tb.cells
    origin_of: Dict[int, Tuple[int, int]] = {}
    cells = []
    for r, row in enumerate(grid):
        for c, x in enumerate(row):
            if isinstance(x, T.Cell):
                origin_of.setdefault(id(x), (r, c))
                p = paths.get(id(x.value))
                if p is None:
                    p = _path_by_value(tree, x.value)
                cells.append({
                    "r": r, "c": c, "rows": x.rows, "cols": x.columns, "kind": kind_of(x.value),
                    "path": list(p) if p is not None else [SENTINEL],
                    "borders": [x.border_left.name, x.border_right.name, x.border_top.name, x.border_bottom.name],
                })
    slots = []
    for r, row in enumerate(grid):
        srow = []
        for c, x in enumerate(row):
            if isinstance(x, T.Cell):
                srow.append([r, c, 0, 0])
            elif isinstance(x, T.ExtendedCell):
                o = origin_of.get(id(x.cell), (SENTINEL, SENTINEL))
                srow.append([o[0], o[1], x.drow, x.dcolumn])
            else:
                srow.append([SENTINEL, SENTINEL, SENTINEL, SENTINEL])
        slots.append(srow)
    return {"rows": tb.rows, "cols": tb.columns, "slots": slots, "cells": cells}


def coq_out(obs: Dict[str, Any]) -> str:
    if "error" in obs:
        return f"(inr {coqio.n_(obs['error'])})"
    n = coqio.n_
    slots = "[" + ";".join(
        "[" + ";".join(f"({a},{b},{d},{e})" for a, b, d, e in row) + "]" for row in obs["slots"]) + "]%N"
    cells = []
    for x in obs["cells"]:
        bl, br, bt, bb = (BORDER[b] for b in x["borders"])
        code = ((bl * 3 + br) * 3 + bt) * 3 + bb
        path = "(@nil N)" if not x["path"] else "[" + ";".join(str(max(i, 0)) for i in x["path"]) + "]"
        cells.append(f"({x['r']},{x['c']},{max(x['rows'], 0)},{max(x['cols'], 0)},{KIND.get(x['kind'], 9)},{code},{path})")
    cells_t = "(@nil ocell)" if not cells else "[" + ";".join(cells) + "]%N"
    return f"(inl ({n(obs['rows'])}, {n(obs['cols'])}, {slots}, {cells_t}))"


# ---------------------------------------------------------------- oracle: the property text on the implementation's table

def _bbox(rects: List[Tuple[int, int, int, int]]) -> Tuple[int, int, int, int]:
    r0 = min(r for r, _, _, _ in rects)
    c0 = min(c for _, c, _, _ in rects)
    r1 = max(r + h for r, _, h, _ in rects)
    c1 = max(c + w for _, c, _, w in rects)
    return (r0, c0, r1 - r0, c1 - c0)


def oracle(tree: Any, obs: Dict[str, Any]) -> Optional[str]:
    import recipe_grid.recipe as RR
    skel = G.skeleton_of(tree)
    if "error" in obs:
        if G.well_formed(skel):
            return f"well-formed tree but recipe_tree_to_table raised {obs['exc']}"
        return None
    if not G.well_formed(skel):
        return None  # nothing is claimed about malformed trees
    R, C = obs["rows"], obs["cols"]
    cells = obs["cells"]
    # 1. complete rectangle without gaps or overlaps
    if R < 1 or C < 1:
        return "empty table"
    cover = [[0] * C for _ in range(R)]
    for x in cells:
        if x["rows"] < 1 or x["cols"] < 1:
            return f"cell at ({x['r']},{x['c']}) has a non-positive span"
        if x["r"] + x["rows"] > R or x["c"] + x["cols"] > C:
            return f"cell at ({x['r']},{x['c']}) sticks out of the {R}x{C} rectangle"
        for r in range(x["r"], x["r"] + x["rows"]):
            for c in range(x["c"], x["c"] + x["cols"]):
                cover[r][c] += 1
    for r in range(R):
        for c in range(C):
            if cover[r][c] != 1:
                return f"slot ({r},{c}) is covered by {cover[r][c]} cells"
    at = {(x["r"], x["c"]): x for x in cells}
    if len(obs["slots"]) != R or any(len(row) != C for row in obs["slots"]):
        return "cells array is not rows x columns"
    for r in range(R):
        for c in range(C):
            r0, c0, dr, dc = obs["slots"][r][c]
            x = at.get((r0, c0))
            if x is None or not (r0 <= r < r0 + x["rows"] and c0 <= c < c0 + x["cols"]) or (dr, dc) != (r - r0, c - c0):
                return f"array slot ({r},{c}) does not point back to the cell covering it"
    # 2. every drawn node exactly once
    by_path: Dict[Tuple[int, ...], Dict[str, Any]] = {}
    for x in cells:
        p = tuple(x["path"])
        if p in by_path:
            return f"node at path {list(p)} appears in two cells"
        by_path[p] = x
    drawn: Dict[Tuple[int, ...], str] = {}
    nodes: Dict[Tuple[int, ...], Any] = {}

    def walk(n: Any, p: Tuple[int, ...]) -> None:
        nodes[p] = n
        if isinstance(n, RR.SubRecipe):
            if len(n.output_names) != 1:
                drawn[p] = "outputs"
            elif n.show_output_names:
                drawn[p] = "header"
        else:
            drawn[p] = kind_of(n)
        for i, k in enumerate(G.children(n)):
            walk(k, p + (i,))
    walk(tree, ())
    for p, k in drawn.items():
        if p not in by_path:
            return f"{k} at path {list(p)} has no cell"
        if by_path[p]["kind"] != k:
            return f"cell of path {list(p)} is a {by_path[p]['kind']}, the node is a {k}"
    for p in by_path:
        if p not in drawn:
            return f"a cell is drawn for path {list(p)} which should not be drawn (or is not a node of the tree)"
    # regions: bounding box of the cells of a node's subtree
    region: Dict[Tuple[int, ...], Tuple[int, int, int, int]] = {}
    area: Dict[Tuple[int, ...], int] = {}

    def reg(n: Any, p: Tuple[int, ...]) -> None:
        rects = []
        a = 0
        if p in by_path:
            x = by_path[p]
            rects.append((x["r"], x["c"], x["rows"], x["cols"]))
            a += x["rows"] * x["cols"]
        for i, k in enumerate(G.children(n)):
            reg(k, p + (i,))
            rects.append(region[p + (i,)])
            a += area[p + (i,)]
        region[p] = _bbox(rects)
        area[p] = a
    reg(tree, ())
    for p, (r0, c0, h, w) in region.items():
        if area[p] != h * w:
            return f"the cells of the subtree at path {list(p)} do not fill its bounding box"
    if region[()] != (0, 0, R, C):
        return "the tree's region is not the whole table"
    # 3. geometry
    for p, n in nodes.items():
        r0, c0, h, w = region[p]
        if isinstance(n, RR.Step):
            x = by_path[p]
            if (x["r"], x["rows"]) != (r0, h):
                return f"step {list(p)}: cell does not span exactly the rows of its region"
            if x["c"] + x["cols"] != c0 + w:
                return f"step {list(p)}: cell does not reach the right end of its region"
            rr = r0
            for i in range(len(n.inputs)):
                ri, ci, hi, wi = region[p + (i,)]
                if ri != rr:
                    return f"step {list(p)}: input {i} does not start where the previous one ends (written order)"
                if ci != c0:
                    return f"step {list(p)}: input {i} does not start at the left of the step's region"
                if ci + wi != x["c"]:
                    return f"step {list(p)}: input {i} does not end immediately left of the step cell"
                rr += hi
            if rr != r0 + h:
                return f"step {list(p)}: the inputs do not span exactly the step's rows"
        elif isinstance(n, RR.SubRecipe):
            rb, cb, hb, wb = region[p + (0,)]
            if len(n.output_names) == 1:
                if n.show_output_names:
                    x = by_path[p]
                    if (x["r"], x["c"], x["rows"], x["cols"]) != (r0, c0, 1, w):
                        return f"sub recipe {list(p)}: header is not one row spanning the full width at the top"
                    if (rb, cb, hb, wb) != (r0 + 1, c0, h - 1, w):
                        return f"sub recipe {list(p)}: body is not directly below the header at full width"
                elif (rb, cb, hb, wb) != (r0, c0, h, w):
                    return f"untitled sub recipe {list(p)}: region differs from its body's"
            else:
                x = by_path[p]
                if (rb, cb, hb) != (r0, c0, h) or (x["r"], x["c"], x["rows"], x["cols"]) != (r0, cb + wb, h, 1) \
                        or cb + wb + 1 != c0 + w:
                    return f"multi-output sub recipe {list(p)}: outputs cell is not right of the body at full height"
        else:
            x = by_path[p]
            if (x["r"], x["c"], x["rows"], x["cols"]) != (r0, c0, h, w) or h != 1:
                return f"leaf {list(p)}: not a single one-row cell"
    # 4. borders: outline of the root region and of every nested single-output sub recipe
    bordered: List[Tuple[int, int, int, int]] = []
    if isinstance(tree, RR.SubRecipe) and len(tree.output_names) != 1:
        bordered.append(region[(0,)])
    else:
        bordered.append(region[()])
    for p, n in nodes.items():
        if isinstance(n, RR.SubRecipe) and len(n.output_names) == 1:
            bordered.append(region[p])
    bordered = list(set(bordered))
    for x in cells:
        r0, c0, h, w = x["r"], x["c"], x["rows"], x["cols"]
        exp = {"left": "normal", "right": "normal", "top": "normal", "bottom": "normal"}
        if x["kind"] == "outputs":
            exp.update(right="none", top="none", bottom="none")
        for (br, bc, bh, bw) in bordered:
            if br <= r0 and r0 + h <= br + bh and bc <= c0 and c0 + w <= bc + bw:
                if c0 == bc:
                    exp["left"] = "sub_recipe"
                if c0 + w == bc + bw:
                    exp["right"] = "sub_recipe"
                if r0 == br:
                    exp["top"] = "sub_recipe"
                if r0 + h == br + bh:
                    exp["bottom"] = "sub_recipe"
        got = dict(zip(("left", "right", "top", "bottom"), x["borders"]))
        for e in ("left", "right", "top", "bottom"):
            if got[e] != exp[e]:
                return (f"cell ({r0},{c0}) [{x['kind']} {x['path']}]: {e} border is {got[e]}, "
                        f"the outline rule gives {exp[e]}")
    return None


# ---------------------------------------------------------------- cases

def make_case(tree: Any) -> Case:
    skel = G.skeleton_of(tree)
    obs = observe(tree)
    impl: Any = obs if "error" in obs else {
        "rows": obs["rows"], "cols": obs["cols"],
        "cells": [[x["r"], x["c"], x["rows"], x["cols"], x["kind"], x["path"], x["borders"]] for x in obs["cells"][:60]],
    }
    tg = G.tags(skel) + (["malformed"] if not G.well_formed(skel) else [])
    return Case(input=ser.node_json(tree), coq_in=G.ltree_term(skel), coq_out=coq_out(obs), impl=impl,
                violation=oracle(tree, obs), nontrivial=("error" in obs or len(obs["cells"]) > 1), tags=tg)


# ---------------------------------------------------------------- sequences converted in one process

class _Unsupported:
    """Not a recipe node: recipe_tree_to_table raises NotImplementedError for it."""


def sequence_case(items: List[Any]) -> Case:
    """`items`: recipe trees and/or the marker "unsupported"; all are converted here, one after the other, in
    this process. Every tree is compared with the model and checked by the oracle as if it were converted alone:
    the table of a tree must not depend on what was converted before (memo tables, counters, a failed conversion)."""
    from recipe_grid.renderer.recipe_to_table import recipe_tree_to_table
    inp: List[Any] = []
    ins: List[str] = []
    outs: List[str] = []
    impl: List[Any] = []
    violation: Optional[str] = None
    ntrees = 0
    for k, it in enumerate(items):
        if isinstance(it, str):
            inp.append({"unsupported": True})
            try:
                recipe_tree_to_table(_Unsupported())  # type: ignore
                impl.append("unsupported object: no exception")
            except Exception as e:  # noqa
                impl.append("unsupported object: " + type(e).__name__)
            continue
        inp.append({"tree": ser.node_json(it)})
        obs = observe(it)
        ins.append(G.ltree_term(G.skeleton_of(it)))
        outs.append(coq_out(obs))
        impl.append(obs if "error" in obs else {"rows": obs["rows"], "cols": obs["cols"], "cells": len(obs["cells"])})
        ntrees += 1
        v = oracle(it, obs)
        if v and violation is None:
            violation = (f"tree {k + 1} of {len(items)} converted one after the other in one process "
                         f"(alone it may be drawn correctly): " + v)
    return Case(input={"seq": inp}, coq_in="[" + "; ".join(ins) + "]" if ins else "(@nil ltree)",
                coq_out="[" + "; ".join(outs) + "]" if outs else "(@nil oresult)", impl=impl[:6], violation=violation,
                nontrivial=ntrees > 1, tags=["sequence"])


def sequences(tier: str, rng: random.Random) -> List[List[Any]]:
    import recipe_grid.recipe as RR
    out: List[List[Any]] = []
    fails: List[List[Any]] = []
    n = 60 if tier == "quick" else 600

    def step_tree() -> Any:
        while True:
            sk = G.random_skeleton(rng, rng.randrange(2, 14), max_depth=rng.choice((3, 5, 8)),
                                   p_sub=rng.choice((0.0, 0.2, 0.4)), p_ref=0.2, p_multi=0.0)
            if sk[0] == "S":
                return G.decorate(rng, sk)

    def any_tree() -> Any:
        sk = G.random_skeleton(rng, rng.randrange(1, 12), max_depth=rng.choice((2, 4, 8)),
                               p_sub=rng.choice((0.0, 0.3)), p_ref=0.3, p_multi=rng.choice((0.0, 0.3)))
        return G.decorate(rng, sk)

    def copy(t: Any) -> Any:
        return ser.node_unjson(ser.node_json(t))   # value-equal, different objects

    def wraps(t: Any) -> List[Any]:
        x = G.decorate(rng, G.I)
        y = G.decorate(rng, G.S(G.I, G.R))
        return [
            RR.Step(G.rand_svs(rng), (t,)),
            RR.Step(G.rand_svs(rng), (x, t)),
            RR.Step(G.rand_svs(rng), (t, y)),
            RR.Step(G.rand_svs(rng), (RR.Step(G.rand_svs(rng), (y, t)), x)),
            RR.SubRecipe(t, (G.rand_svs(rng),), True),
            RR.SubRecipe(t, (G.rand_svs(rng),), False),
            RR.SubRecipe(t, (G.rand_svs(rng), G.rand_svs(rng)), True),
            RR.Step(G.rand_svs(rng), (RR.SubRecipe(t, (G.rand_svs(rng),), rng.random() < 0.5), x)),
        ]

    # (2) a failing conversion first, ordinary trees afterwards (listed first: see suites())
    for i in range(max(8, n // 4)):
        bad: Any = "unsupported" if i % 2 else RR.Step(G.rand_svs(rng), ())
        if i % 5 == 4:
            bad = RR.Step(G.rand_svs(rng), (G.decorate(rng, G.I), RR.Step(G.rand_svs(rng), ())))
        after = [step_tree(), G.decorate(rng, rng.choice((G.I, G.R))), any_tree()]
        rng.shuffle(after)
        fails.append([bad] + after)
    # (1) the same step as a root and as a non-root node, in both orders; the same tree twice
    for i in range(n):
        t = step_tree()
        for w in rng.sample(wraps(t), 3):
            out.append([t, w] if rng.random() < 0.5 else [w, t])
        w = rng.choice(wraps(t))
        out.append([t, w, t])
        out.append([t, t])
        t2 = copy(t)
        out.append([t, rng.choice(wraps(t2))])
        out.append([rng.choice(wraps(t)), t2])
    return fails + out


def sequence_replay(inp: Any) -> Case:
    return sequence_case(["unsupported" if "unsupported" in it else ser.node_unjson(it["tree"]) for it in inp["seq"]])


def skeleton_case(tree: Any) -> Case:
    skel = G.skeleton_of(tree)
    return Case(input=ser.node_json(tree), coq_in=ser.node(tree), coq_out=G.ltree_term(skel),
                impl=repr(skel)[:500], violation=None, nontrivial=G.n_nodes(skel) > 1, tags=["skeleton"])


def replay(inp: Any) -> Case:
    if isinstance(inp, dict) and "seq" in inp:
        return sequence_replay(inp)
    return make_case(ser.node_unjson(inp))


def known_match(finding: Any, case: Case) -> bool:
    return False


def malformed_trees(rng: random.Random) -> List[Any]:
    import recipe_grid.recipe as RR
    from recipe_grid.scaled_value_string import ScaledValueString as SVS
    e = RR.Step(SVS("empty"), ())
    return [
        e,
        RR.Step(SVS("outer"), (RR.Ingredient(SVS("a")), RR.Step(SVS("empty"), ()))),
        RR.SubRecipe(RR.Step(SVS("empty"), ()), (SVS("x"),)),
        RR.SubRecipe(RR.Step(SVS("s"), (RR.Step(SVS("empty"), ()), RR.Ingredient(SVS("b")))), (SVS("x"), SVS("y"))),
    ]


def search(seed: int, budget_s: float) -> List[Case]:
    """Hunt for a tree on which the property text fails (used by the driver when a proof or the
    correspondence is broken and no violating input is known yet); stops at the first few hits."""
    import time
    t0 = time.time()
    rng = random.Random(seed * 104729 + 2)
    out: List[Case] = []
    hits = 0
    budget = min(budget_s, 60.0)
    for sk in G.exhaustive_skeletons(4, double_wrap_upto=3, refs_upto=2):
        c = make_case(G.decorate(rng, sk))
        if c.violation:
            out.append(c)
            hits += 1
        if hits >= 3 or time.time() - t0 > budget / 2:
            break
    while hits < 3 and time.time() - t0 < budget:
        for sk in G.random_skeletons(rng, 50):
            c = make_case(G.decorate(rng, sk))
            if c.violation:
                out.append(c)
                hits += 1
    return out


IMPORTS = ["From RG Require Import Model.Recipe Model.Table Model.Layout."]


def skeletons(tier: str, rng: random.Random) -> List[Any]:
    if tier == "quick":
        sk = list(G.exhaustive_skeletons(3, double_wrap_upto=2, refs_upto=2))
        sk += G.random_skeletons(rng, 2300, big=16)
    else:
        sk = list(G.exhaustive_skeletons(5, double_wrap_upto=3, refs_upto=3))
        sk += G.random_skeletons(rng, 20000, big=100)
    return sk


def suites(tier: str, seed: int) -> List[Suite]:
    lay = Suite(name="layout", imports=IMPORTS, in_ty="ltree", out_ty="oresult", check="check_layout",
                show="show_layout", shard=150)
    ske = Suite(name="skeleton", imports=IMPORTS, in_ty="node", out_ty="ltree", check="check_skeleton",
                show="ltree_of_node", shard=100)
    spe = Suite(name="spec", imports=IMPORTS + ["From RG Require Import Spec.LayoutSpec."], in_ty="ltree",
                out_ty="unit", check="check_spec",
                show="(fun t => match recipe_tree_to_table t with Ok tb => Some (table_eqb tb (spec_table t)) | Err _ => None end)",
                shard=400)
    seq = Suite(name="sequence", imports=IMPORTS, in_ty="list ltree", out_ty="list oresult",
                check="check_layout_seq", show="(List.map show_layout)", shard=120)
    if tier == "replay":
        return [lay, ske, spe, seq]
    rng = random.Random(seed * 7919 + 2)
    seen = set()
    trees = []
    for sk in skeletons(tier, rng):
        if sk in seen:
            continue
        seen.add(sk)
        trees.append(G.decorate(rng, sk))
    trees += malformed_trees(rng)
    # balance the shards: deal the cases, largest first, round-robin over the shards
    cases = [make_case(t) for t in trees]
    cases.sort(key=lambda c: len(c.coq_out), reverse=True)
    nsh = max(1, (len(cases) + lay.shard - 1) // lay.shard)
    buckets: List[List[Case]] = [[] for _ in range(nsh)]
    for i, c in enumerate(cases):
        buckets[i % nsh].append(c)
    lay.shard = len(buckets[0])
    for b in buckets:
        lay.cases.extend(b)
    for t in trees[:: max(1, len(trees) // (150 if tier == "quick" else 1500))]:
        if G.n_nodes(G.skeleton_of(t)) <= 80:
            ske.cases.append(skeleton_case(t))
    # the specification (Spec/LayoutSpec.v) against the model on the same trees (theorem C02_layout_refines_spec
    # proves this for all trees; evaluating it keeps the statement honest if the model is edited)
    nbig = 0
    for c in lay.cases:
        if len(c.coq_out) > 40000:       # the few largest trees: only some of them (cost grows quadratically)
            nbig += 1
            if nbig % 6 != 1:
                continue
        spe.cases.append(Case(input=c.input, coq_in=c.coq_in, coq_out="tt", impl=None, violation=None,
                              nontrivial=c.nontrivial, tags=["spec"]))
    # state carried between conversions: sequences converted in this one process, generated LAST (after every
    # single-tree case above, so that a corrupted process state cannot be blamed on a single tree whose replay in a
    # fresh process would not reproduce); sequences that start with a failing conversion come first among them
    for items in sequences(tier, rng):
        seq.cases.append(sequence_case(items))
    return [lay, ske, spe, seq]
