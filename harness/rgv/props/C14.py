"""C14 (link algebra part) - relative links between page addresses resolve to their target.

The site-level part of C14 (navigation, author links, reachability) is built on top of
Model/Href.v and Model/Url.v by the site model; this module owns the algebra: href.parent /
relative / relative_url, urllib's quote / unquote, RFC 3986 reference resolution."""
from __future__ import annotations

import random
from typing import Any, Dict, List, Optional, Tuple
from urllib.parse import quote, unquote, urljoin, urlsplit

from .. import coqio
from ..api import Case, Suite

ID = "C14"
MERGE = ["C14site"]     # site-level part (navigation targets, author links, reachability) lives in C14site
PROPS_FILE = "Props/C14.v"
GEN_DEPS: List[str] = []
ALLOWED_AXIOMS: List[str] = []
THEOREMS = {
    "C14_relative_correct": "full",
    "C14_quote_roundtrip": "full",
    "C14_quoted_relative_correct": "full",
    "C14_quoted_is_path_only": "full",
    "C14_relative_unquoted_refuted": "refuted",
    "C14_examples": "example",
}
TRUSTED = [
    "Coq 8.16.1 kernel (coqc; vm_compute for the correspondence, Examples and the refutation witness)",
    "model of CPython 3.12 urllib.parse.quote (default safe='/'), unquote (utf-8, errors='replace'), str.encode / "
    "bytes.decode('utf-8','replace'): Model/Url.v, compared with CPython on adversarial inputs (suites quote, unquote, utf8)",
    "ordinary URL resolution = RFC 3986 section 5.2 (merge + remove_dot_segments) for path-only references: Model/Url.v "
    "url_resolve, compared with urllib.parse.urljoin and with a literal transcription of RFC 3986 5.2.4 (suite resolve)",
    "recipe_grid.static_site.href is modelled literally (Model/Href.v) and compared on every generated path pair (suite href)",
    "correspondence harness: rgv/props/C14.py, coqio serialiser, in-Coq comparison",
]
ASSUMPTIONS = [
    "page addresses are absolute paths whose segments are non-empty, not '.' / '..' and contain no '/'; the target is not a "
    "directory-prefix of the source's directory (a file and a directory cannot share a name)",
    "strings are sequences of Unicode scalar values (no lone surrogates: CPython's quote raises UnicodeEncodeError on them)",
]
RULE = ("random directory trees (depth <= 5) with segment names over letters, digits, spaces, '# ? % : & \\' \" + ~ . ;=@', "
        "non-ASCII (2-, 3-, 4-byte), names like '...', '.x', '%2F', 'a:b'; every ordered pair of files of a tree incl. a "
        "file with itself; plus direct adversarial suites for quote/unquote/utf-8 decoding/resolution; a case is "
        "non-trivial when source and target differ; distinct = distinct input")


# ---------------------------------------------------------------- href suite

def href_case(f: str, t: str, tags: List[str]) -> Case:
    from recipe_grid.static_site import href
    parent, rel, rel_url = href.parent(f), href.relative(f, t), href.relative_url(f, t)
    base = "http://h" + quote(f)
    joined = urljoin(base, rel_url)
    parts = urlsplit(joined)
    violation = None
    if parts.scheme != "http" or parts.netloc != "h" or parts.query or parts.fragment:
        violation = f"link {rel_url!r} on page {f!r} leaves the site or gains a query/fragment: {joined!r}"
    elif unquote(parts.path) != t:
        violation = f"link {rel_url!r} on page {f!r} resolves to {unquote(parts.path)!r}, not to {t!r}"
    return Case(input={"from": f, "to": t},
                coq_in=coqio.pair(coqio.string(f), coqio.string(t)),
                coq_out=coqio.pair(coqio.pair(coqio.string(parent), coqio.string(rel), coqio.string(rel_url)),
                                   coqio.string(parts.path)),
                impl={"parent": parent, "relative": rel, "relative_url": rel_url, "urljoin": joined},
                violation=violation, nontrivial=f != t, tags=tags)


NAME_CHARS = "abcXYZ019 _-.~#?%:&'\"+;=@!$*(),[]<>{}|\\^`\t\xe9 \xfc\u20ac\u4e2d\U0001f600\u0301"
SPECIAL_NAMES = ["...", ".x", "x.", "%2F", "%", "a:b", "a b", "#", "?", "a#b", "q?x=1", "&amp;", "..a", "a..", "index.html",
                 "c:", "http:", "\xe9", "\U0001f600.html", "a%20b", "%zz", "50%", "~", "-", "_"]


def gen_name(rng: random.Random) -> str:
    if rng.random() < 0.3:
        return rng.choice(SPECIAL_NAMES)
    return "".join(rng.choice(NAME_CHARS) for _ in range(rng.choice([1, 1, 2, 3, 5, 9])))


def gen_tree(rng: random.Random) -> List[str]:
    """File paths of a random directory tree (names unique within a directory, files and directories disjoint)."""
    files: List[str] = []
    # a small pool makes the same name recur at the same depth of different branches (/x/a/p vs /y/a/q)
    pool = [gen_name(rng) for _ in range(3)] if rng.random() < 0.4 else None

    def go(prefix: str, depth: int) -> None:
        names: List[str] = []
        for _ in range(rng.choice([1, 2, 3, 4])):
            n = rng.choice(pool) if pool else gen_name(rng)
            if n in (".", "..") or n in names:
                continue
            names.append(n)
        for i, n in enumerate(names):
            if depth < 5 and rng.random() < 0.45:
                go(prefix + "/" + n, depth + 1)
            else:
                files.append(prefix + "/" + n)

    go("", 0)
    if not files:
        files.append("/index.html")
    return files


# ---------------------------------------------------------------- direct suites

QCHARS = ["a", "Z", "0", "/", "-", "_", ".", "~", " ", "%", "#", "?", ":", "&", "'", '"', "+", "\x00", "\x7f", "\x80", "\xe9",
          "\xff", "\u07ff", "\u0800", "\u20ac", "\ud7ff", "\ue000", "\uffff", "\U00010000", "\U0001f600", "\U0010ffff", "@",
          "=", ";", "%41", "%2f"]
UCHARS = ["%", "%4", "%41", "%c3%a9", "%C3", "%a9", "%e2%82%ac", "%E2%82", "%f0%9f%98%80", "%F0%9F", "%ff", "%c0%80",
          "%ed%a0%80", "%zz", "%%", "a", "/", "\xe9", "\u20ac", "\U0001f600", "%2", "%G1", "%1g", "%e0%80%80", "%f4%90%80%80",
          "%80", "%C3\xe9%A9", "+", " ", "%00", "%7F", "%e2", "%82", "%ac"]


def quote_case(x: str) -> Case:
    q = quote(x)
    u = unquote(q)
    return Case(input={"quote": x}, coq_in=coqio.string(x), coq_out=coqio.pair(coqio.string(q), coqio.string(u)),
                impl=[q, u], violation=None if u == x else f"unquote(quote({x!r})) = {u!r}", tags=["quote"])


def unquote_case(x: str) -> Case:
    return Case(input={"unquote": x}, coq_in=coqio.string(x), coq_out=coqio.string(unquote(x)), impl=unquote(x),
                violation=None, tags=["unquote"])


def utf8_case(bs: bytes) -> Case:
    d = bs.decode("utf-8", "replace")
    return Case(input={"bytes": list(bs)}, coq_in=coqio.lst([coqio.n_(b) for b in bs], "N"), coq_out=coqio.string(d),
                impl=d, violation=None, tags=["utf8", "valid" if "\ufffd" not in d else "with-replacement"])


def rfc_remove_dot_segments(path: str) -> str:
    """RFC 3986 5.2.4, transcribed literally (input / output buffers)."""
    inp, out = path, ""
    while inp:
        if inp.startswith("../"):
            inp = inp[3:]
        elif inp.startswith("./"):
            inp = inp[2:]
        elif inp.startswith("/./"):
            inp = inp[2:]
        elif inp == "/.":
            inp = "/"
        elif inp.startswith("/../"):
            inp = inp[3:]
            out = out[: out.rfind("/")] if "/" in out else ""
        elif inp == "/..":
            inp = "/"
            out = out[: out.rfind("/")] if "/" in out else ""
        elif inp in (".", ".."):
            inp = ""
        else:
            i = inp.find("/", 1)
            seg, inp = (inp, "") if i < 0 else (inp[:i], inp[i:])
            out += seg
    return out


def rfc_resolve(base: str, ref: str) -> str:
    if ref == "":
        return base
    if ref.startswith("/"):
        return rfc_remove_dot_segments(ref)
    merged = (base[: base.rfind("/") + 1] if "/" in base else "") + ref
    return rfc_remove_dot_segments(merged)


def resolve_case(base: str, ref: str) -> Case:
    """Model against the literal RFC transcription (urljoin is compared on realistic inputs in suite href)."""
    expected = rfc_resolve(base, ref)
    return Case(input={"base": base, "ref": ref}, coq_in=coqio.pair(coqio.string(base), coqio.string(ref)),
                coq_out=coqio.string(expected), impl=expected, violation=None, tags=["resolve"])


SEGS = ["a", "b", "..", ".", "", "c.html", "...", "x y", "%2e", "é"]


def replay(inp: Any) -> Case:
    if "from" in inp:
        return href_case(inp["from"], inp["to"], ["replay"])
    if "quote" in inp:
        return quote_case(inp["quote"])
    if "unquote" in inp:
        return unquote_case(inp["unquote"])
    if "bytes" in inp:
        return utf8_case(bytes(inp["bytes"]))
    return resolve_case(inp["base"], inp["ref"])


def known_match(finding: Any, case: Case) -> bool:
    return False


def suites(tier: str, seed: int) -> List[Suite]:
    imp = ["From RG Require Import Model.Url Model.Href."]
    hr = Suite(name="href", imports=imp, in_ty="str * str", out_ty="(str * str * str) * str",
               check="(fun i o => check_href i (fst o) && check_link i (snd o))",
               show="(fun i => (href_relative (fst i) (snd i), href_relative_url (fst i) (snd i), "
                    "url_resolve (quote (fst i)) (href_relative_url (fst i) (snd i))))")
    qu = Suite(name="quote", imports=imp, in_ty="str", out_ty="str * str", check="check_quote", show="quote")
    un = Suite(name="unquote", imports=imp, in_ty="str", out_ty="str", check="check_unquote", show="unquote")
    u8 = Suite(name="utf8", imports=imp, in_ty="list N", out_ty="str", check="check_utf8_decode", show="utf8_decode")
    rs = Suite(name="resolve", imports=imp, in_ty="str * str", out_ty="str", check="check_resolve",
               show="(fun i => url_resolve (fst i) (snd i))")
    if tier == "replay":
        return [hr, qu, un, u8, rs]
    rng = random.Random(seed * 7919 + 14)
    seen = set()
    ntrees = 40 if tier == "quick" else 1500
    for _ in range(ntrees):
        files = gen_tree(rng)
        pairs = [(f, t) for f in files for t in files]
        if len(pairs) > 60:
            pairs = rng.sample(pairs, 60)
        for f, t in pairs:
            if (f, t) in seen:
                continue
            seen.add((f, t))
            tags = ["depth-from:%d" % f.count("/"), "depth-to:%d" % t.count("/"),
                    "self" if f == t else "same-dir" if f.rsplit("/", 1)[0] == t.rsplit("/", 1)[0] else "other-dir"]
            if any(c in f + t for c in "#?%:"):
                tags.append("url-significant")
            if any(ord(c) > 127 for c in f + t):
                tags.append("non-ascii")
            hr.cases.append(href_case(f, t, tags))
    n = 500 if tier == "quick" else 20000
    for _ in range(n):
        x = "".join(rng.choice(QCHARS) for _ in range(rng.choice([0, 1, 2, 3, 5, 8])))
        if "Q" + x not in seen:
            seen.add("Q" + x)
            qu.cases.append(quote_case(x))
        y = "".join(rng.choice(UCHARS) for _ in range(rng.choice([1, 2, 3, 4, 6])))
        if "U" + y not in seen:
            seen.add("U" + y)
            un.cases.append(unquote_case(y))
        bs = bytes(rng.choice([rng.randrange(256), rng.choice([0x41, 0x80, 0xBF, 0xC0, 0xC2, 0xDF, 0xE0, 0xA0, 0x9F, 0xED,
                                                                0xEF, 0xF0, 0x90, 0x8F, 0xF4, 0xF5, 0xFF])])
                   for _ in range(rng.choice([1, 2, 3, 4, 5, 7])))
        if bs not in seen:
            seen.add(bs)
            u8.cases.append(utf8_case(bs))
        base = "/" + "/".join(rng.choice(SEGS) for _ in range(rng.choice([1, 2, 3, 4])))
        ref = ("/" if rng.random() < 0.2 else "") + "/".join(rng.choice(SEGS) for _ in range(rng.choice([0, 1, 2, 3, 5])))
        if ("R", base, ref) not in seen:
            seen.add(("R", base, ref))
            rs.cases.append(resolve_case(base, ref))
    return [hr, qu, un, u8, rs]
