"""C14 (site level) - every navigation link and author link of a generated site leads to the intended, existing
file; every page is reachable from the home page.  (The link algebra is props/C14.py.)"""
from __future__ import annotations

from typing import Any, List

from .. import site_common as SC
from ..api import Case, Suite

ID = "C14site"
PROPS_FILE = "Props/C14site.v"
GEN_DEPS: List[str] = []
ALLOWED_AXIOMS: List[str] = []
THEOREMS = {
    "C14_author_link_to_page": "full",
    "C14_author_link_to_page_ex": "example",
    "C14_author_link_to_asset": "full",
    "C14_demo_no_dead_links": "example",
    "C14_nav_targets_exist": "full",
    "C14_reachable": "full",
    "C14_reachable_ex": "example",
    "C14_author_links": "full",
    "C14_lookup_targets_written": "full",
    "C14_author_links_hyp_ex": "example",
}
TRUSTED = [
    "Coq 8.16.1 kernel (coqc; vm_compute for the correspondence and the concrete examples only)",
    "Model/Url.v quote/unquote/url_resolve and Model/Href.v (C14 link algebra, tied by props/C14.py); urlsplit is "
    "modelled in Model/Site.v for URLs without bracketed / non-ASCII netloc",
    "lxml passes every href/src value (stripped) to the callback and writes the result back; libxml2's serialiser "
    "percent-encodes nothing in the values the generator produces (they are ASCII after quote(); query and fragment "
    "of the generated links are ASCII): observed through html.parser, not proved",
    "Model/Fs.v for Path.resolve(); rgv/site_common.py, rgv/gen/sitegen.py",
]
ASSUMPTIONS = ["entry names are unique within a directory and contain no surrogates",
               "queries and fragments of author links are ASCII without characters libxml2 escapes"]
RULE = ("generated source trees with cross links among recipes / directories / readmes / assets in relative, "
        "surplus-.., through-the-root, root-absolute, percent-encoded and raw-Unicode spellings with query and fragment, "
        "from scaled, unscaled and home pages, names with # ? % & ' \" : + ; = and Unicode; oracle = browser-style "
        "resolution (urljoin BEFORE unquote) of every href/src of every page + intended target recomputed with "
        "os.path.realpath + reachability from index.html; non-trivial = more than 3 pages")


def suites(tier: str, seed: int) -> List[Suite]:
    site, hist, big = SC.site_suite(), SC.history_suite(), SC.big_site_suite()
    if tier == "replay":
        return [site, hist, big]
    if tier == "quick":
        plan = [("valid", "small", 10), ("valid", "medium", 30), ("valid", "deep", 10), ("valid", "small:ws", 4),
                ("valid", "medium:wsrm", 3)]
    else:
        plan = [("valid", "small", 400), ("valid", "medium", 1200), ("valid", "deep", 400), ("valid", "small:ws", 100),
                ("valid", "medium:wsrm", 100)]
    site.cases = SC.gen_site_cases("C14", seed, plan)
    # several generations in one process (edits, a larger max_servings and then a smaller one again): the link checker
    # runs on every generation - nothing of an earlier build may be linked from a later one
    hist.cases = SC.gen_links_history_cases(seed, 6 if tier == "quick" else 100)
    # build, ADD recipes and links to them, rebuild into the SAME output directory: link checker + reachability on the
    # result, which must also equal a from-scratch build of the new tree
    hist.cases += SC.gen_add_sources_history_cases(seed, 6 if tier == "quick" else 100)
    # a recipe written for more than 256 servings (max_servings 257..301) that other documents link to: ~600 pages,
    # one tree per quick run (about 12 s to generate, 30 s in Coq on a page sample)
    big.cases = SC.gen_big_m_cases(seed, 1 if tier == "quick" else 4, "C14")
    return [site, hist, big]


def replay(inp: Any) -> Case:
    return SC.replay_any(inp, "C14")


def known_match(finding: Any, case: Case) -> bool:
    return False
