"""C13 - a Markdown document becomes its recipes plus ordinary CommonMark
(and the Markdown-prose clause of C03: numbers in brace expressions are scaled, nothing else)."""
from __future__ import annotations

import html as _html
import random
import re
from fractions import Fraction
from typing import Any, Dict, List, Optional, Tuple

from .. import coqio as c
from .. import ser
from ..api import Case, Suite
from ..gen import mdgen

ID = "C13"
PROPS_FILE = "Props/C13.v"
PROPS_EXTRA = ["Props/C13e2e.v"]   # glue: compile oracle instantiated with the parser+compiler model (Proofs/GlueMarkdown.v)
MERGE = ["C13full"]   # whole-document suite `fulldoc` + Props/C13doc.v: oracles instantiated with the compiler / renderer models
GEN_DEPS: List[str] = ["GenRegex", "GenBrace", "GenChars"]
ALLOWED_AXIOMS: List[str] = []
THEOREMS: Dict[str, str] = {
    "C13_pin_patterns": "example",
    "C13_pin_constants": "example",
    "C13_replace_once": "full",
    "C13_replace_once_ex": "example",
    "C13_blocks_exact": "full",
    "C13_is_recipe_block_ex": "example",
    "C13_groups": "full",
    "C13_groups_concat": "full",
    "C13_groups_shape": "full",
    "C13_groups_ex": "example",
    "C13_compile_per_group": "full",
    "C13_render_spec": "full",
    "C13_no_residue": "full",
    "C13_rng_independent": "full",
    "C13_hypotheses_ex": "example",
    "C13_render_ex": "example",
    "C13_brace_tokens_cover": "full",
    "C13_brace_token_kinds": "full",
    "C13_brace_scale": "full",
    "C13_brace_ex": "example",
    "C13e2e_compile_ast_length": "full", "C13e2e_compile_src_length": "full", "C13_compile_model_len_ok": "full", "C13_model_compile_per_group": "full", "C13_model_render_spec": "full", "C13_model_recipes_from_source": "full", "C13_model_recipes_page_valid": "full", "C13e2e_hyps": "example", "C13e2e_recipes": "example", "C13e2e_render_ex": "example",
}
TRUSTED = [
    "Coq 8.16.1 kernel (coqc, vm_compute for correspondence only)",
    "marko 0.9.1 (CommonMark parsing and HTML rendering) is third party and NOT modelled: a document enters the model as "
    "the flat sequence of pieces marko's own parser + HTMLRenderer produce (harness: RecipeGrid elements, marko renderer "
    "with cut marks at headings, brace expressions and code blocks); marko's renderer only concatenates children in order",
    "oracles of the model: recipe_grid.compiler.compile (C01/C05/C08) and render_recipe_tree of the scaled trees (C02/C04) "
    "enter as tables recorded from the implementation, looked up by the padded source texts / (scale, id prefix, trees)",
    "placeholders: the 32 random letters are recorded from the implementation by wrapping "
    "recipe_grid.markdown.generate_placeholder inside the harness process; the model adds the two '%' itself",
    "Python semantics modelled by hand: str.replace, OrderedDict assignment order, textwrap.indent, str.splitlines, "
    "str.rstrip, html.escape, re semantics of the ScaledValueExpression patterns (tied by suite brace), "
    "float()/int(float()) as correctly rounded binary64 (Base/Num.v b64)",
    "title_serving_count_pattern.search is Model/Title.v serving_search (C18: pinned against the live pattern)",
    "correspondence harness: rgv/props/C13.py, rgv/gen/mdgen.py, coqio/ser serialisers, in-Coq string equality",
]
ASSUMPTIONS = [
    "Fresh: the placeholders drawn for one document are pairwise distinct and each occurs exactly once in the text it is "
    "about to be replaced in (a hypothesis of C13_render_spec, failure probability <= n^2 * len * 26^-32 per document)",
    "documents whose recipe blocks compile (compile errors are C07/C19) and whose numbers stay inside the number model",
]
RULE = ("documents from rgv/gen/mdgen.py (and hand-written ones incl. brace expressions in image alt text): 1-8 block constructs (headings ATX/setext with and without serving phrases, "
        "paragraphs, lists, quotes, raw HTML, reference definitions, other fenced code, indented / recipe / new-recipe "
        "blocks with tiny valid recipes sharing names inside a namespace) with brace expressions in every inline "
        "position; each rendered at k in {1, 2, 1/3, 1.5}; a document is non-trivial when it has a brace expression in "
        "prose, a recipe block or a captured title; suite brace: generated and adversarial brace bodies / texts")

SCALES: List[Any] = [1, 2, Fraction(1, 3), 1.5]
S0, S1 = "", ""


# ---------------------------------------------------------------- access to the implementation

def _M():
    import recipe_grid.markdown as M
    if not getattr(M.ScaledValueExpression, "_rgv_patched", False):
        orig = M.ScaledValueExpression.__init__

        def init(self, match):  # record the source text of the expression (harness process only)
            orig(self, match)
            self._rgv_source = match["source"]
        M.ScaledValueExpression.__init__ = init
        M.ScaledValueExpression._rgv_patched = True
    return M


class _SentinelMixin:
    """marko's HTMLRenderer with cut marks where recipe_grid's mixin takes over."""

    def __init__(self, *a: Any, **k: Any) -> None:
        super().__init__(*a, **k)
        self.tab: List[Any] = []

    def _tok(self, obj: Any) -> str:
        self.tab.append(obj)
        return f"{S0}{len(self.tab) - 1}{S1}"

    def render_scaled_value_expression(self, el: Any) -> str:
        return self._tok(("brace", el._rgv_source))

    def render_plain_text(self, el: Any) -> str:
        # image alt text: marko renders the children with render_plain_text (never through the mixin)
        from marko import HTMLRenderer
        if type(el).__name__ == "ScaledValueExpression":
            return self._tok(("alt", el._rgv_source, el.children, HTMLRenderer.render_plain_text(self, el)))
        return HTMLRenderer.render_plain_text(self, el)

    def render_heading(self, el: Any) -> str:
        return self._tok(("hopen", el.level)) + self.render_children(el) + self._tok(("hclose",))

    def _code(self, el: Any, fenced: bool) -> str:
        from marko import HTMLRenderer
        return self._tok(("code", fenced, el.lang, el.children[0].children, el.pos,
                          HTMLRenderer.render_fenced_code(self, el)))

    def render_code_block(self, el: Any) -> str:
        return self._code(el, False)

    def render_fenced_code(self, el: Any) -> str:
        return self._code(el, True)


def structure(text: str) -> Tuple[List[Any], List[Tuple[str, str]]]:
    """The abstract item list: marko's own parse (RecipeGrid elements) rendered by marko's own renderer,
    cut at headings / brace expressions / code blocks.
    items: ("lit", html) | ("brace", src) | ("alt", src) | ("heading", level, [("lit", h) | ("brace", src) | ("alt", src)]) |
           ("code", fenced, lang, src, pos, plain_html);  second result: marko's escape_html as (text, escaped) pairs"""
    from marko import Markdown
    M = _M()

    class Ext:
        elements = M.RecipeGrid.elements
        renderer_mixins = [_SentinelMixin]
    md = Markdown(extensions=[Ext])
    doc = md.parse(text)
    out = md.render(doc)
    tab = md.renderer.tab
    parts = re.split(f"{S0}([0-9]+){S1}", out)
    items: List[Any] = []
    esc: List[Tuple[str, str]] = []
    cur: Optional[List[Any]] = None
    level = 0
    for i, p in enumerate(parts):
        if i % 2 == 0:
            if p:
                (cur if cur is not None else items).append(("lit", p))
            continue
        t = tab[int(p)]
        if t[0] == "brace":
            (cur if cur is not None else items).append(("brace", t[1]))
        elif t[0] == "alt":
            (cur if cur is not None else items).append(("alt", t[1]))
            if (t[2], t[3]) not in esc:
                esc.append((t[2], t[3]))
        elif t[0] == "hopen":
            assert cur is None
            cur, level = [], t[1]
        elif t[0] == "hclose":
            assert cur is not None
            items.append(("heading", level, cur))
            cur = None
        else:
            assert cur is None
            items.append(("code",) + tuple(t[1:]))
    assert cur is None
    return items, esc


def scales_for(i: Optional[int]) -> List[Any]:
    """k = 1 and one other factor for most documents, all four for every fifth; value-equal factors of different
    type one after the other (2, 2.0, Fraction(2): equal under == and hash) for every seventh and for hand-written ones."""
    if i is None:
        return list(SCALES) + [2.0, Fraction(2), 1.0, Fraction(1)]
    if i % 7 == 3:
        return [1, 2, 2.0, Fraction(2)]
    if i % 5 == 0:
        return list(SCALES)
    return [1, SCALES[1 + i % 3]]


def run_impl(text: str, seed: Optional[int] = None, scales: Optional[List[Any]] = None) -> Dict[str, Any]:
    """compile_markdown + render at every scale, recording the placeholders drawn."""
    M = _M()
    rec: List[str] = []
    orig = M.generate_placeholder

    def gp(*a: Any, **k: Any) -> str:
        p = orig(*a, **k)
        rec.append(p)
        return p
    if seed is not None:
        random.seed(seed)
    M.generate_placeholder = gp
    try:
        cm = M.compile_markdown(text)
    except Exception as e:
        return {"exception": type(e).__name__, "msg": str(e)[:200], "placeholders": rec}
    finally:
        M.generate_placeholder = orig
    try:
        htmls = [cm.render(k) for k in (scales or SCALES)]
    except Exception as e:
        return {"exception": "render:" + type(e).__name__, "msg": str(e)[:200]}
    return {"placeholders": rec, "cm": cm, "htmls": htmls, "scales": list(scales or SCALES)}


# ---------------------------------------------------------------- Gallina encoders

def _s(x: str) -> str:
    """Like coqio.string, written with the short names of Gen/GenChars.v (about 3x faster to load)."""
    if not x:
        return "(@nil N)"
    return "[" + ";".join((f"c{ord(ch)}" if ord(ch) < 256 else str(ord(ch))) for ch in x) + "]%N"


def _inl(x: Any) -> str:
    return f"({ {'lit': 'ILit', 'brace': 'IBrace', 'alt': 'IAlt'}[x[0]]} {_s(x[1])})"


def _item(x: Any) -> str:
    if x[0] == "lit":
        return f"(Lit {_s(x[1])})"
    if x[0] == "brace":
        return f"(Brace {_s(x[1])})"
    if x[0] == "alt":
        return f"(Alt {_s(x[1])})"
    if x[0] == "heading":
        return f"(Heading {c.n_(x[1])} {c.lst([_inl(y) for y in x[2]], 'inl')})"
    _, fenced, lang, src, pos, plain = x
    return f"(Code {c.boolean(fenced)} {_s(lang)} {_s(src)} {c.n_(pos)} {_s(plain)})"


def _trees(r: Any) -> str:
    return c.lst([ser.node(t) for t in r.recipe_trees], "node")


def is_recipe_block(fenced: bool, lang: str) -> bool:
    """The property's wording: indented code blocks and fenced blocks tagged recipe / new-recipe."""
    return (not fenced) or lang in ("recipe", "new-recipe")


def split_groups(blocks: List[Tuple[bool, str, Any]]) -> List[List[Any]]:
    """blocks: (fenced, lang, payload) of the recipe blocks in document order -> groups of payloads:
    one namespace until a new-recipe block starts a fresh one."""
    groups: List[List[Any]] = []
    for fenced, lang, payload in blocks:
        if (fenced and lang == "new-recipe") or not groups:
            groups.append([])
        groups[-1].append(payload)
    return groups


def id_prefix(gi: int) -> str:
    return "recipe-" if gi <= 1 else f"recipe{gi}-"


def padded(text: str, pos: int, fenced: bool, src: str) -> str:
    """Line-number padding computed the plain way (documents only use LF / CRLF line ends)."""
    norm = text.replace("\r\n", "\n")
    return "\n" * (norm[:pos].count("\n") + (1 if fenced else 0)) + src


def tables_of(recipe: Any, k: Any, prefix: str) -> List[str]:
    from recipe_grid.renderer.html import render_recipe_tree
    return [render_recipe_tree(t, prefix) for t in recipe.scale(k).recipe_trees]


# ---------------------------------------------------------------- oracle (independent of the Coq model)

PLACEHOLDER_RE = re.compile(r"%[A-Z]{32}%")


def fancy_number(v: Any) -> str:
    from recipe_grid.number_formatting import format_number
    sx = format_number(v)
    m = re.fullmatch(r"((?:\d+ )?)(\d+)/(\d+)", sx)
    if m:
        return f"{m.group(1)}<sup>{m.group(2)}</sup>&frasl;<sub>{m.group(3)}</sub>"
    return sx


def value_html(parts: List[Any], k: Any) -> str:
    """A brace expression's content with its numbers multiplied by k (Python arithmetic)."""
    out = ""
    for p in parts:
        if isinstance(p, str):
            out += _html.escape(p)
        else:
            out += f'<span class="rg-scaled-value">{fancy_number(p * k)}</span>'
    return out


def alt_text(parts: List[Any]) -> str:
    """Inside image alt text: the content as plain text, not scaled (attribute text escaped by marko)."""
    from marko import HTMLRenderer
    from recipe_grid.number_formatting import format_number
    return HTMLRenderer.escape_html("".join(p if isinstance(p, str) else format_number(p) for p in parts))


def squash(x: str) -> str:
    """Layout-insensitive comparison: line breaks and the blanks around them do not count."""
    return re.sub(r"\s*\n\s*", "", x)


def header_note(k: Any, servings: Optional[int]) -> str:
    if k == 1:
        return ""
    if servings is not None:
        return (f'<p>Rescaled from <span class="rg-original-servings">{servings} serving'
                f'{"" if servings == 1 else "s"}</span>.</p>')
    return f'<p>Scaled <span class="rg-scaling-factor">{fancy_number(k)}&times;</span></p>'


def plain_structure(text: str) -> Tuple[str, List[Any]]:
    """Plain CommonMark (marko without recipe_grid) with marks at headings and code blocks."""
    from marko import Markdown, HTMLRenderer

    class R(HTMLRenderer):
        def __init__(self) -> None:
            super().__init__()
            self.tab: List[Any] = []

        def _tok(self, obj: Any) -> str:
            self.tab.append(obj)
            return f"{S0}{len(self.tab) - 1}{S1}"

        def render_heading(self, el: Any) -> str:
            return self._tok(("h", el.level, self.render_children(el)))

        def render_code_block(self, el: Any) -> str:
            return self._tok(("code", False, "", el.children[0].children, HTMLRenderer.render_fenced_code(self, el)))

        def render_fenced_code(self, el: Any) -> str:
            return self._tok(("code", True, el.lang, el.children[0].children,
                              HTMLRenderer.render_fenced_code(self, el)))
    md = Markdown(renderer=R)
    out = md.render(md.parse(text))
    return out, md.renderer.tab


def direct_compile(groups: List[List[str]]) -> List[List[Any]]:
    from recipe_grid.compiler import compile
    return [compile(list(g)) for g in groups]


def typed_equal_recipes(a: List[List[Any]], b: List[List[Any]]) -> bool:
    def js(gs: List[List[Any]]) -> Any:
        return [[[ser.node_json(t) for t in r.recipe_trees] for r in g] for g in gs]
    return js(a) == js(b)


def oracle(gd: Optional[mdgen.GenDoc], text: str, impl: Dict[str, Any]) -> Tuple[Optional[str], List[str]]:
    """The property's wording checked on what the implementation returned.  -> (violation, notes)."""
    notes: List[str] = []
    if "exception" in impl:
        # allowed only when compiling the block texts directly (group by group, in order) fails the same way
        try:
            _pout, ptab0 = plain_structure(gd.plain if gd is not None else text)
            pb0 = [(t[1], t[2], t[3]) for t in ptab0 if t[0] == "code" and is_recipe_block(t[1], t[2])]
            direct_compile(split_groups(pb0))
            expected = None
        except Exception as e:
            expected = type(e).__name__
        if expected is not None and expected == impl["exception"]:
            notes.append("compile-error:" + expected)
            return None, notes
        return (f"compile_markdown / render raised {impl['exception']}: {impl.get('msg', '')} "
                f"(compiling the block texts directly: {expected or 'no error'})"), notes
    cm, htmls = impl["cm"], impl["htmls"]
    SCALES = impl["scales"]
    # (a0) placeholders are 32 random upper-case letters between '%': what makes a clash with user text (which could
    #      then be substituted) improbable (26^-32) and unpredictable; a counter or a short marker is guessable
    for p in impl["placeholders"]:
        if not re.fullmatch(r"%[A-Z]{32}%", p):
            return f"placeholder {p!r} is not 32 random upper-case letters between '%': user text can collide with it", notes
    runs = [run_impl(text, seed=None, scales=SCALES[:1]) for _ in range(2)]
    if all("placeholders" in r_ for r_ in runs) and impl["placeholders"]:
        a_, b_ = runs[0]["placeholders"], runs[1]["placeholders"]
        if a_ and b_ and (set(a_) & set(b_) or set(a_) & set(impl["placeholders"])):
            return "the same placeholder was drawn in two independent compilations: placeholders are predictable", notes
    # (a) no placeholder residue
    for k, h in zip(SCALES, htmls):
        m = PLACEHOLDER_RE.search(h)
        if m and m.group(0) not in text:
            return f"placeholder residue {m.group(0)} in the output at scale {k}", notes
        for p in impl["placeholders"]:
            if p in h and p not in text:
                return f"placeholder {p} left in the output at scale {k}", notes
    # (b) independent of the random generator's state and of earlier compilations
    for sd in (1, 987654321):
        again = run_impl(text, seed=sd, scales=SCALES)
        if "exception" in again or again["htmls"] != htmls:
            return f"output differs under random.seed({sd})", notes
        if sd == 1:
            _M().compile_markdown("# Other for 3\n\n    2 eggs\n\n{4} words\n").render(2)
            # rendering the SAME object again, in another order of factors, gives the same pages
            cm2 = again["cm"]
            for k, h in reversed(list(zip(SCALES, htmls))):
                if cm2.render(k) != h or cm.render(k) != h:
                    return f"render({k}) on an already rendered MarkdownRecipe differs from a fresh compile + render", notes
    # (c) the recipe blocks are exactly the indented / recipe / new-recipe blocks of plain CommonMark, in
    #     order, grouped by new-recipe, and equal compiling the block texts directly
    try:
        pout, ptab = plain_structure(gd.plain if gd is not None else text)
    except Exception as e:  # plain marko itself fails: nothing to compare with
        notes.append("plain-marko-failed:" + type(e).__name__)
        return None, notes
    pblocks = [(t[1], t[2], t[3]) for t in ptab if t[0] == "code" and is_recipe_block(t[1], t[2])]
    groups = split_groups(pblocks)
    try:
        direct = direct_compile(groups)
    except Exception as e:
        return (f"compile_markdown returned a result although compiling the block texts directly raises "
                f"{type(e).__name__}"), notes
    if not typed_equal_recipes(cm.recipes, direct):
        return ("the compiled recipes differ from compiling the indented / recipe / new-recipe block texts directly "
                "(grouped at new-recipe)"), notes
    nblocks = sum(len(g) for g in groups)
    for k, h in zip(SCALES, htmls):
        if h.count('<div class="rg-recipe-block">') != nblocks:
            return f"{h.count('<div class=\"rg-recipe-block\">')} recipe divs at scale {k}, {nblocks} recipe blocks", notes
    # (d) everything else is plain CommonMark modulo the specified substitutions
    if gd is None or not gd.comparable:
        notes.append("plain-comparison-skipped")
        return None, notes
    prose = [(i, b) for i, b in enumerate(gd.braces) if b.prose]
    alts = [(i, b) for i, b in enumerate(gd.braces) if b.alt]
    heads = [t for t in ptab if t[0] == "h"]
    if len(heads) != len(gd.headings):
        notes.append("heading-count-mismatch")
        return None, notes
    everything = pout + "".join(t[2] for t in heads)
    if any(mdgen.sentinel(i) not in everything for i, _ in prose + alts):
        notes.append("sentinel-lost")
        return None, notes
    # the generator's belief about which braces stand in prose must be what marko parsed
    nsvs = len(cm.scaled_value_strings) - (1 if cm.servings is not None else 0)
    if nsvs != len(prose):
        return (f"{nsvs} brace expressions were recognised in prose, the document has {len(prose)} (a brace that overlaps a "
                f"code span, inline HTML, autolink or backslash escape is ordinary text)"), notes
    flat = {id(r): (gi + 1, r) for gi, g in enumerate(direct) for r in g}
    order = [r for g in direct for r in g]
    for k, h in zip(SCALES, htmls):
        cands: List[str] = [""]
        hi = 0
        bi = 0
        pieces = re.split(f"{S0}([0-9]+){S1}", pout)
        for j, p in enumerate(pieces):
            if j % 2 == 0:
                cands = [a + p for a in cands]
                continue
            t = ptab[int(p)]
            if t[0] == "code":
                if is_recipe_block(t[1], t[2]):
                    r = order[bi]
                    bi += 1
                    gi = flat[id(r)][0]
                    div = '<div class="rg-recipe-block">' + "\n".join(tables_of(r, k, id_prefix(gi))) + "</div>"
                    cands = [a + div for a in cands]
                else:
                    cands = [a + t[4] for a in cands]
                continue
            _, level, inner = t
            info = gd.headings[hi]
            plain_h = f"<h{level}>{inner}</h{level}>\n"
            choices = [plain_h]
            if hi == 0 and level == 1:
                unsc = f'<header><h1 class="rg-title-unscalable">{inner}</h1>{header_note(k, None)}</header>\n'
                sc = None
                m = re.search(r"(?i)(\s+)((?:(?:to\s+)?serves?|to\s+make|for|makes|serving)\s+)([0-9]+)\s*$", inner)
                if m:
                    n = int(m.group(3))
                    sc = (f'<header><h1 class="rg-title-scalable">{inner[:m.start()]}{m.group(1)}'
                          f'<span class="rg-serving-count">{m.group(2)}{value_html([n], k)}</span></h1>'
                          f'{header_note(k, n)}</header>\n')
                if info.kind == "scalable":
                    if not inner.endswith(info.prep + str(info.count)) or sc is None:
                        notes.append("heading-text-unexpected")
                        return None, notes
                    choices = [sc]
                elif info.kind == "unscalable":
                    choices = [unsc]
                elif info.kind in ("markup", "brace"):
                    choices = [plain_h]
                else:
                    choices = [plain_h, unsc] + ([sc] if sc else [])
            hi += 1
            cands = [a + ch for a in cands for ch in choices]
        ok = False
        for a in cands:
            for i, b in prose:
                a = a.replace(mdgen.sentinel(i), value_html(b.parts, k))
            for i, b in alts:
                a = a.replace(mdgen.sentinel(i), alt_text(b.parts))
            if squash(a) == squash(h):
                ok = True
                break
        if not ok:
            return (f"at scale {k} the output is not plain CommonMark with brace expressions scaled, recipe blocks "
                    f"replaced in place and the first plain H1 wrapped in the title header"), notes
    return None, notes


# ---------------------------------------------------------------- cases

def doc_case(text: str, gd: Optional[mdgen.GenDoc], tags: List[str], index: Optional[int] = None) -> Optional[Case]:
    SCALES = scales_for(index)
    impl = run_impl(text, scales=SCALES)
    tags = list(tags)
    inp: Dict[str, Any] = {"text": text, "index": index}
    if gd is not None:
        inp["gen"] = {"plain": gd.plain, "comparable": gd.comparable,
                      "braces": [[b.body, None if b.parts is None else [p if isinstance(p, str) else c.num_json(p) for p in b.parts],
                                  b.prose, b.where, b.alt] for b in gd.braces],
                      "headings": [[h.level, h.kind, h.title, h.space, h.prep, h.count] for h in gd.headings]}
    from recipe_grid.compiler import compile
    compile_error = None
    if "exception" in impl:
        viol, notes0 = oracle(gd, text, impl)
        try:
            items, esc = structure(text)
        except Exception:
            items = None
        if items is None or not any(n.startswith("compile-error:") for n in notes0):
            # not a compile error of the blocks: nothing the model can say
            return Case(input=inp, coq_in="(mkIn (mkDoc [] []) [] [] [] [] [])", coq_out="(ObsOk (mkObs false None [] []))",
                        impl={"exception": impl["exception"], "msg": impl.get("msg")}, violation=viol,
                        nontrivial=True, tags=tags + ["exception:" + impl["exception"]])
        compile_error = impl["exception"]
    else:
        cm, htmls = impl["cm"], impl["htmls"]
        items, esc = structure(text)
    # oracle tables for the model
    blocks = [(it[1], it[2], it) for it in items if it[0] == "code" and is_recipe_block(it[1], it[2])]
    groups = split_groups(blocks)
    ctab, rtab = [], []
    for gi, g in enumerate(groups):
        srcs = [padded(text, it[4], it[1], it[3]) for it in g]
        try:
            rs = compile(srcs)
        except Exception:
            ctab.append(c.pair(c.lst([_s(x) for x in srcs], "str"), "(@None (list (list node)))"))
            continue
        ctab.append(c.pair(c.lst([_s(x) for x in srcs], "str"), "(Some " + c.lst([_trees(r) for r in rs], "(list node)") + ")"))
        if compile_error is not None:
            continue
        for r in rs:
            tr = _trees(r)
            for k in SCALES:
                rtab.append(c.pair(c.num(k), _s(id_prefix(gi + 1)), tr,
                                   c.lst([_s(x) for x in tables_of(r, k, id_prefix(gi + 1))], "str")))
    slugs = [p[1:-1] if len(p) >= 2 and p[0] == "%" and p[-1] == "%" else p for p in impl["placeholders"]]
    coq_in = (f"(mkIn (mkDoc {_s(text)} {c.lst([_item(x) for x in items], 'item')}) "
              f"{c.lst([_s(x) for x in slugs], 'str')} "
              f"{c.lst([c.pair(_s(a), _s(b)) for a, b in esc], '(str * str)')} "
              f"{c.lst(ctab, '(list str * option (list (list node)))')} "
              f"{c.lst(rtab, '(num * str * list node * list str)')} "
              f"{c.lst([c.num(k) for k in SCALES], 'num')})")
    if compile_error is not None:
        return Case(input=inp, coq_in=coq_in, coq_out="ObsCompileError",
                    impl={"exception": compile_error, "msg": impl.get("msg"), "recipe_blocks": len(blocks), "groups": len(groups)},
                    violation=viol, nontrivial=True, tags=tags + notes0 + [f"recipe-blocks:{min(len(blocks), 4)}"])
    rec = c.lst([c.lst([_trees(r) for r in g], "(list node)") for g in cm.recipes], "(list (list node))")
    coq_out = (f"(ObsOk (mkObs {c.boolean(cm.title is not None)} "
               f"{c.opt(c.n_(cm.servings) if cm.servings is not None else None, 'N')} {rec} "
               f"{c.lst([_s(h) for h in htmls], 'str')}))")
    viol, notes = oracle(gd, text, impl)
    nb = sum(1 for it in items if it[0] == "brace" or (it[0] == "heading" and any(y[0] == "brace" for y in it[2])))
    tags += notes
    tags.append(f"recipe-blocks:{min(len(blocks), 4)}")
    tags.append(f"groups:{min(len(groups), 3)}")
    tags.append("title:" + ("none" if cm.title is None else "scalable" if cm.servings is not None else "unscalable"))
    if nb:
        tags.append("prose-braces")
    return Case(input=inp, coq_in=coq_in, coq_out=coq_out,
                impl={"title": cm.title, "servings": cm.servings, "html@1": htmls[0][:1500], "html@2": htmls[1][:600],
                      "recipe_blocks": len(blocks), "groups": len(groups)},
                violation=viol, nontrivial=bool(nb or blocks or cm.title is not None), tags=tags)


def _gd_from_json(text: str, g: Any) -> mdgen.GenDoc:
    gd = mdgen.GenDoc(text=text, plain=g["plain"], comparable=g["comparable"])
    for body, parts, prose, where, alt in g["braces"]:
        ps = None if parts is None else [p if isinstance(p, str) else c.num_unjson(p) for p in parts]
        gd.braces.append(mdgen.BraceOcc(body, ps, prose, where, alt))
    for h in g["headings"]:
        gd.headings.append(mdgen.HeadingInfo(*h))
    return gd


def _one_doc(args: Tuple[int, int]) -> Optional[Case]:
    seed, i = args
    rng = random.Random((seed * 1000003 + i) * 2 + 13)
    gd = mdgen.gen_doc(rng)
    if len(gd.text) > 3500:
        return None
    return doc_case(gd.text, gd, sorted(set(gd.tags)), index=i)


HAND_DOCS = [
    "# Spam for 2\n\nTake {2} eggs and {1/2} cup milk.\n\n    2 eggs\n\n```recipe\nfry(1 egg)\n```\n",
    "Intro\n\n# Late title for 4\n\n```new-recipe\nsauce = mix(1 can tomatoes, 2 tsp salt)\n```\n\n```recipe\nfry(sauce, 1 onion)\n```\n\n"
    "```new-recipe\nsauce = boil(2 onion)\n```\n\n    fry(sauce)\n",
    "# Only title\n",
    "## Not top level for 3\n\n# Second for 2\n",
    "# Spam serves 1\n\n{1} egg{}\n",
    "Spam\nfor 2\n===\n\ntext\n",
    "Spam for\n2\n=\n",
    "",
    "{3}",
    "# A {2} B for 3\n",
    "# 100% rye for 2\n",
    "```python\nx\n```\n\n```recipe\n1 egg\n```\n\n~~~new-recipe\n1 egg\n~~~\n",
    "- a {2}\n\n      3 eggs\n\n- b\n\n  ```recipe\n  fry(1 egg)\n  ```\n\n> # Quoted for 2\n>\n>     1 onion\n",
    "%ABCDEFGHIJKLMNOPQRSTUVWXYZABCDEFG% and %% and 100% {2} `%`\n\n# T for 2\n",
    "# Spam to make 12\n\n{0} {0.0} {1/3} {2 1/3} {10.5} {99999999999999999999}\n",
    "# Tab\tserves\t 7  \n",
    # a literal "<" or &lt; in a plain title is text: title header and servings as usual
    "# Beans < Peas\n", "# Cakes < 5 mins for 4\n\n{2} eggs\n", "Beans < Peas\n===\n", "Cakes &lt; 5 mins serves 4\n=====\n\n    1 egg\n",
    "# Tea &lt; coffee to make 3 #\n", "# a &#60; b\n",
    # sibling documents rendered one after the other in this process: blocks equal under == / hash (1/2 == 0.5,
    # 2 == 2.0 == Fraction(2)) but written differently must each show their own spelling
    "    1/2 cup milk\n", "    0.5 cup milk\n", "    2/4 cup milk\n",
    "```recipe\nfry(2 eggs, 1/3 cup oil)\n```\n", "```recipe\nfry(2.0 eggs, 1/3 cup oil)\n```\n", "```recipe\nfry(2 eggs, 2/6 cup oil)\n```\n",
    "# T for 2\n\n    3 eggs\n", "# T for 2\n\n    3.0 eggs\n", "# T for 2\n\n    6/2 eggs\n",
    # empty first headings: the title is "" (not None)
    "#\n", "# #\n", "#   \n\ntext {2}\n\n    1 egg\n", "# \n\n# Second for 2\n", "##\n\n#\n",
    # fence tags that merely contain the word recipe
    "```pseudo-recipe\n1 egg\n```\n\n```old-recipe\n1 egg\n```\n\n```recipes\n1 egg\n```\n\n```recipe\n1 egg\n```\n\n"
    "```xnew-recipe\n2 egg\n```\n\n```recipe2\n1 egg\n```\n\n```Recipe\n1 egg\n```\n",
    # empty / blank recipe blocks: compiling them raises ParseError, directly and through compile_markdown
    "Stub first:\n\n```recipe\n```\n\nThen:\n\n```recipe\nfry(egg)\n```\n\nEnd.\n",
    "```recipe\nsauce = boil(tomato)\n```\n\nmiddle\n\n~~~recipe\n   \n~~~\n\n```recipe\npour(sauce, pasta)\n```\n",
    "Only a stub:\n\n```new-recipe\n```\n",
    "    1 egg\n\n```new-recipe\n\n```\n\n{2}\n",
    # backslashes in ingredient / step / output names (the tables must be inserted verbatim)
    "    dir\\temp = mix\\1(1 back\\slash, 2 'a\\\\b', \"x\\\\1y\")\n\n```recipe\nfry\\x(dir\\temp, 1 tsp c\\\\new\\table, egg\\g<0>)\n```\n",
    # other compile errors
    "```recipe\nsauce = boil(tomato)\n```\n\n```recipe\nsauce = fry(egg)\n```\n",
]


# No brace expression at all: an opening brace before a code span / inline HTML / autolink / backslash escape that
# swallows the closing brace.  Expectation: plain CommonMark of the same text.
HAND_PLAIN_DOCS = [
    "Use {2 `x} y` here\n", "a {<b>} c</b>\n", "{see <http://x/}> z\n", "{2 \\} x} y\n", "a {1 <span title=\"}\">x</span> b\n",
    "- {1/2 `cup}` of\n- {<i>} x</i>\n", "> {3 <http://example.com/}> and `{4}`\n", "{5 `}` {\\{6}\n",
]


def _hand_heading_docs() -> Dict[str, mdgen.GenDoc]:
    """Multi-line setext first headings with what the page must show (full oracle applies)."""
    out: Dict[str, mdgen.GenDoc] = {}
    for lines, info in mdgen.MULTILINE_HEADINGS:
        for tail in ("", "\ntext {2} more\n\n    1 egg\n"):
            text = "\n".join(lines) + "\n====\n" + tail
            gd = mdgen.GenDoc(text=text, plain=text.replace("{2}", mdgen.sentinel(0)), comparable=True)
            if tail:
                gd.braces.append(mdgen.BraceOcc("2", [2], True, "text"))
            gd.headings.append(info)
            out[text] = gd
    return out


HAND_HEADING_DOCS = _hand_heading_docs()


def _one_hand(text: str) -> Optional[Case]:
    if text in HAND_HEADING_DOCS:
        return doc_case(text, HAND_HEADING_DOCS[text], ["hand-heading"])
    if text in HAND_PLAIN_DOCS:
        return doc_case(text, mdgen.GenDoc(text=text, plain=text, comparable=True), ["hand-plain"])
    return doc_case(text, None, ["hand"])


# ---------------------------------------------------------------- suite brace

def brace_obs(source: str) -> Tuple[str, Any]:
    """ScaledValueExpression(match).string for a match whose "source" group is [source]."""
    M = _M()
    m = re.match(r"(?P<source>.*)", source, re.S)
    assert m is not None and m["source"] == source
    try:
        e = M.ScaledValueExpression(m)
    except OverflowError:
        return "OOverflow", "OverflowError"
    except ValueError as ex:
        return "OValueError", "ValueError:" + str(ex)[:60]
    parts = list(e.string._string)
    import math
    if any(isinstance(p, float) and not math.isfinite(p) for p in parts):
        return "OOverflow", "inf"
    return f"(OParts {ser.svs(e.string)})", ser.svs_json(e.string)


def brace_oracle(source: str, shown: Any) -> Optional[str]:
    """C03 prose clause on one expression: rendering at k multiplies exactly the numbers (checked through the
    implementation's own render of the scaled string at k = 2 and k = 1/2)."""
    if not isinstance(shown, list):
        return None
    from recipe_grid.scaled_value_string import ScaledValueString as SVS
    v = ser.svs_unjson(shown)
    for k in (2, Fraction(1, 2)):
        w = v.scale(k)
        a, b = list(v._string), list(w._string)
        if len(a) != len(b):
            return f"scaling by {k} changed the number of parts"
        for x, y in zip(a, b):
            if isinstance(x, str):
                if x != y:
                    return f"scaling by {k} changed text {x!r} to {y!r}"
            elif y != x * k:
                return f"scaling by {k} turned {x!r} into {y!r}"
    # everything that is not part of a number is kept verbatim, in order (escapes resolved)
    text = "".join(p for p in v._string if isinstance(p, str))
    pos = 0
    plain = re.sub(r"\\(.)", r"\1", source)
    for ch in text:
        j = plain.find(ch, pos)
        if j < 0:
            return f"text {text!r} is not a subsequence of the source {source!r}"
        pos = j + 1
    return None


def brace_case(source: str, tag: str) -> Case:
    out, shown = brace_obs(source)
    return Case(input={"source": source}, coq_in=c.string(source), coq_out=out, impl=shown,
                violation=brace_oracle(source, shown), nontrivial=any(ch.isdigit() for ch in source), tags=["parse-" + tag])


def brace_md_case(body: str, tag: str) -> Optional[Case]:
    """The same parse observed through compile_markdown(...).scaled_value_strings (plain bodies only)."""
    M = _M()
    try:
        cm = M.compile_markdown("x {" + body + "} y\n")
    except Exception:
        return None
    vals = list(cm.scaled_value_strings.values())
    if len(vals) != 1:
        return None
    return Case(input={"via_md": body}, coq_in=c.string(body), coq_out=f"(OParts {ser.svs(vals[0])})",
                impl=ser.svs_json(vals[0]), violation=brace_oracle(body, ser.svs_json(vals[0])),
                nontrivial=any(ch.isdigit() for ch in body), tags=["parse-via-md-" + tag])


SCAN_TIME_LIMIT = 30.0   # generous: the linear pattern needs milliseconds, the exponential one hours; 30 s tolerates a loaded machine


def _scan_worker(text: str, q: Any) -> None:
    M = _M()
    found = [(m.start(), m["source"]) for m in M.ScaledValueExpression.pattern.finditer(text)]
    try:
        M.compile_markdown(text)
    except Exception:          # errors are C07's subject; only the time matters here
        pass
    q.put(found)


def timed_scan(text: str) -> Optional[List[Tuple[int, str]]]:
    """pattern.finditer(text) and compile_markdown(text) in a child process; None when they take longer than
    SCAN_TIME_LIMIT seconds together (a regular expression stuck in backtracking cannot be interrupted in-process)."""
    import multiprocessing as mp
    ctx = mp.get_context("fork")
    q = ctx.Queue()
    p = ctx.Process(target=_scan_worker, args=(text, q))
    p.start()
    try:
        found = q.get(timeout=SCAN_TIME_LIMIT)
    except Exception:
        found = None
    p.join(0.5)
    if p.is_alive():
        p.terminate()
        p.join()
    return found


def scan_case(text: str, tag: str, timed: bool = False) -> Case:
    M = _M()
    viol = None
    if timed:
        got = timed_scan(text)
        if got is None:
            viol = (f"matching brace expressions in a text of {len(text)} characters starting {text[:12]!r} took more "
                    f"than {SCAN_TIME_LIMIT} s (catastrophic backtracking)")
            found: List[Tuple[int, str]] = []
        else:
            found = got
    else:
        found = [(m.start(), m["source"]) for m in M.ScaledValueExpression.pattern.finditer(text)]
    out = c.lst([c.pair(c.n_(a), c.string(b)) for a, b in found], "(N * str)")
    inp = {"scan": text if len(text) < 200 else None, "timed": timed}
    if len(text) >= 200:
        # long inputs are periodic: store the recipe
        inp["long"] = LONG_SCAN_RECIPES.get(text)
    return Case(input=inp, coq_in=c.string(text), coq_out=out, impl=found if len(text) < 200 else len(found), violation=viol,
                nontrivial=bool(found) or timed, tags=["scan-" + tag])


def _long_scan_inputs() -> Dict[str, Any]:
    """Unclosed braces before long runs: rejected in linear time by a sound pattern, in exponential time by the old
    one ("{" + 30 digits took 195 s)."""
    out: Dict[str, Any] = {}
    for head, unit, n, tail in [("{", "1", 5000, ""), ("{", "\\x", 5000, ""), ("call {", "1", 40, ""),
                                ("{", "1 1/2 ", 600, ""), ("{", "\\}", 2000, ""), ("{", "\\\\", 2000, "{"),
                                ("{", "1.5", 1000, " {"), ("{{", "9", 300, "}"), ("{", "7", 3000, "{x}"), ("{", "a\\", 1500, "\n}")]:
        out[head + unit * n + tail] = [head, unit, n, tail]
    return out


LONG_SCAN_RECIPES = _long_scan_inputs()


def image_alt_case(text: str) -> Case:
    """Known crash: a brace expression in image alt text."""
    impl = run_impl(text)
    M = _M()
    m = M.ScaledValueExpression.pattern.search(text)
    src = m["source"] if m else ""
    out, shown = brace_obs(src)
    viol = None
    if "exception" in impl:
        viol = (f"compile_markdown raised {impl['exception']} on a document with a brace expression in image alt text: "
                f"{impl.get('msg', '')}")
    return Case(input={"doc": text}, coq_in=c.string(src), coq_out=out,
                impl={"exception": impl.get("exception"), "msg": impl.get("msg")} if "exception" in impl else {"ok": True},
                violation=viol, nontrivial=True, tags=["image-alt"])


BRACE_HAND = ["", "2", "1/2", "1 1/2", "1  \t1/2", "1 /2", "1/ 2", "1 / 2", "1/0", "1/00", "1/05", "1/050", "2 1/0", "1 2 3/4",
              "12 3", "1.5", "1.", ".5", "1.5.2", "1..2", "007", "0", "0.0", "00.50", "1e3", "1/2/3", "1 1/2 1/2", "1/2 3/4",
              "a", "\\}", "\\{", "\\\\", "\\", "a\\", "\\1", "\\12", "1\\/2", "{", "}", "a{b}c", "\n", "\\\n", "1\n/2",
              "1\t/\t2", "½", "٣", "١/٢", "1/2", "x 2 y 3.0 z 1/3", "9007199254740993", "99999999999999999999",
              "1" + "0" * 400, "1" + "0" * 400 + ".5", "1/" + "1" * 4301, "1" * 4301 + " 1/2", "0." + "0" * 30 + "1",
              "123456789.123456789", "3 1/3 cups", "about 2-3", "2x", "2 x 3", "1 / 0 1", "10 1/0", "1 0/5", "0/5", "4/2"]
SCAN_HAND = ["{\\\\{}", "{\\\\{}}", "{a\\b}", "{\\\n}", "{\\\n", "{a\\\n\\}", "{\\}x{\\}", "{\\", "{\\}", "{\\\\}", "{a\\}b",
             "{2}", "a {2} b {3/4} c", "{", "}", "{}", "{{2}}", "{a{b}c}", "\\{2}", "{2\\}", "{2\\}}", "{\\}", "{\\\\}", "{\\\\\\}}",
             "{a\\}b}", "{a\\{b}", "{a\n}", "{a\\\n}", "{1/2} {", "x{1}{2}y", "{\\}\\}\\}", "{\\}\\}\\}}", "{\\", "{a\\", "{1 1/2 x}",
             "}{", "{}{}", "{ٱ}", "{\\{\\}}", "{a}}", "{{a}"]


def gen_brace_sources(rng: random.Random, n: int) -> List[Tuple[str, str]]:
    out: List[Tuple[str, str]] = []
    for _ in range(n):
        body, _parts = mdgen.brace_body(rng, simple=rng.random() < 0.6)
        out.append((body, "generated"))
    alphabet = ["0", "1", "2", "5", "9", " ", " ", "\t", "/", "/", ".", "\\", "{", "}", "a", "x", "\n", "½"]
    for _ in range(n):
        out.append(("".join(rng.choice(alphabet) for _ in range(rng.randrange(0, 12))), "random"))
    return out


def gen_scan_texts(rng: random.Random, n: int) -> List[Tuple[str, str]]:
    alphabet = ["{", "{", "}", "}", "\\", "\\", "1", "2", "/", " ", "a", "\n", "."]
    heavy = ["{", "}", "\\", "\\", "\\", "\n", "a"]
    out = []
    for _ in range(n):
        out.append(("".join(rng.choice(alphabet) for _ in range(rng.randrange(0, 16))), "random"))
    for _ in range(n):
        out.append(("".join(rng.choice(heavy) for _ in range(rng.randrange(0, 14))), "backslash-heavy"))
    return out


# ---------------------------------------------------------------- driver interface

def _suites_empty() -> Tuple[Suite, Suite, Suite, Suite]:
    md = Suite(name="markdown", imports=["From RG Require Import Gen.GenChars Model.Recipe Model.Brace Model.Markdown Spec.MarkdownSpec."],
               in_ty="md_in", out_ty="md_outcome", check="check_md_spec", show="show_md", shard=12)
    bp = Suite(name="brace", imports=["From RG Require Import Model.Recipe Model.Brace."],
               in_ty="str", out_ty="brace_obs", check="check_brace_parse", show="brace_parse", shard=400)
    sc = Suite(name="scan", imports=["From RG Require Import Model.Recipe Model.Brace."],
               in_ty="str", out_ty="list (N * str)", check="check_find_braces", show="find_braces", shard=400)
    ia = Suite(name="imagealt", imports=["From RG Require Import Model.Recipe Model.Brace."],
               in_ty="str", out_ty="brace_obs", check="check_brace_parse", show="brace_parse", shard=400)
    return md, bp, sc, ia


def suites(tier: str, seed: int) -> List[Suite]:
    from ..compile_common import pmap
    md, bp, sc, ia = _suites_empty()
    if tier == "replay":
        return [md, bp, sc, ia]
    n = 260 if tier == "quick" else 4000
    cases = pmap(_one_doc, [(seed, i) for i in range(n)])
    md.cases = [x for x in cases if x is not None]
    md.cases += [x for x in (_one_hand(t) for t in HAND_DOCS + mdgen.IMAGE_ALT_DOCS + HAND_PLAIN_DOCS + list(HAND_HEADING_DOCS)) if x is not None]
    rng = random.Random(seed * 7919 + 13)
    nb = 600 if tier == "quick" else 8000
    seen = set()
    for src, tag in [(b, "hand") for b in BRACE_HAND] + gen_brace_sources(rng, nb):
        if src in seen:
            continue
        seen.add(src)
        bp.cases.append(brace_case(src, tag))
        if tag == "generated" and not any(ch in src for ch in "\\{}*_<>&[]`\n"):
            cm_case = brace_md_case(src, tag)
            if cm_case is not None:
                bp.cases.append(cm_case)
    seen = set()
    for tx, tag in [(t, "hand") for t in SCAN_HAND] + gen_scan_texts(rng, nb):
        if tx in seen:
            continue
        seen.add(tx)
        sc.cases.append(scan_case(tx, tag))
    for tx in LONG_SCAN_RECIPES:
        sc.cases.append(scan_case(tx, "long-unclosed", timed=True))
    return [md, bp, sc, ia]


def replay(inp: Any) -> Case:
    if "source" in inp:
        return brace_case(inp["source"], "replay")
    if "via_md" in inp:
        case = brace_md_case(inp["via_md"], "replay")
        assert case is not None
        return case
    if "scan" in inp:
        text = inp["scan"]
        if text is None:
            head, unit, n, tail = inp["long"]
            text = head + unit * n + tail
        return scan_case(text, "replay", timed=bool(inp.get("timed")))
    if "doc" in inp:          # the former known finding F3 (brace expression in image alt text), now in the main stream
        case = doc_case(inp["doc"], None, ["replay"])
        assert case is not None
        return case
    gd = _gd_from_json(inp["text"], inp["gen"]) if "gen" in inp else None
    case = doc_case(inp["text"], gd, ["replay"], index=inp.get("index"))
    assert case is not None, "the document's recipe blocks do not compile (outside C13)"
    return case


def _brace_in_image_alt(text: str) -> bool:
    from marko import Markdown
    M = _M()

    class Ext:
        elements = M.RecipeGrid.elements
    try:
        doc = Markdown(extensions=[Ext]).parse(text)
    except Exception:
        return False

    def walk(el: Any, in_image: bool) -> bool:
        if type(el).__name__ == "ScaledValueExpression":
            return in_image
        ch = getattr(el, "children", None)
        if isinstance(ch, list):
            inside = in_image or type(el).__name__ == "Image"
            return any(walk(x, inside) for x in ch)
        return False
    return walk(doc, False)


def known_match(finding: Any, case: Case) -> bool:
    if finding.get("matches") == "image_alt_attribute_error":
        text = case.input.get("doc") if isinstance(case.input, dict) else None
        if text is None:
            text = case.input.get("text") if isinstance(case.input, dict) else None
        if text is None or not isinstance(case.impl, dict):
            return False
        return (case.impl.get("exception") == "AttributeError" and "children" in (case.impl.get("msg") or "")
                and _brace_in_image_alt(text))
    return False
