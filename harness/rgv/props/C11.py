"""C11 - displayed numbers are correctly rounded, exact when they can be."""
from __future__ import annotations

import math
import random
import re
from fractions import Fraction
from typing import Any, List, Optional

from .. import coqio
from ..api import Case, Suite

ID = "C11"
PROPS_FILE = "Props/C11.v"
GEN_DEPS = ["GenConsts"]
ALLOWED_AXIOMS: List[str] = []
THEOREMS = {}
TRUSTED = [
    "Coq 8.16.1 kernel (coqc, vm_compute for correspondence only)",
    "model of CPython: format(x,'.nf') and round(x) are correctly rounded (ties to even) on the exact binary value; "
    "math.modf exact; float(Fraction) correctly rounded (Base/Num.v b64)",
    "translator: GenConsts (significant_figures default, allowed_denominators default) read from the live functions",
    "correspondence harness: rgv/props/C11.py generators, coqio serialiser, in-Coq string equality",
]
ASSUMPTIONS = ["numbers are non-negative and below 1e15 (recipes cannot express negative numbers)"]
RULE = ("ints, Fractions (allowed and other denominators, times scale factors) and floats placed on and within a few "
        "ulps of every rounding boundary at every digit position, exact ties, just below powers of ten, random; "
        "a case is non-trivial when it is not an int below 1000; distinct = distinct (type, value)")

ALLOWED = (2, 3, 4, 5, 6, 7, 8, 12, 16)


# ---------------------------------------------------------------- implementation side

def impl(x: Any) -> str:
    from recipe_grid.number_formatting import format_number
    return format_number(x)


def sigfig_expected_places(x: Fraction) -> int:
    """Decimal places at which 3 significant figures sit (0 once there are >= 3 integer digits)."""
    if x == 0:
        return 0
    e = 0
    # floor(log10 x) exactly
    if x >= 1:
        while x >= Fraction(10) ** (e + 1):
            e += 1
    else:
        while x < Fraction(10) ** e:
            e -= 1
    return max(0, 2 - e)


def oracle(x: Any, out: str) -> Optional[str]:
    """The property's wording, checked on the implementation's output."""
    from recipe_grid.number_parser import number as parse_number
    if isinstance(x, int):
        return None if out == str(x) else f"int {x} shown as {out!r}"
    if isinstance(x, Fraction) and x.denominator == 1:
        return None if out == str(x.numerator) else f"integral fraction {x} shown as {out!r}"
    if isinstance(x, Fraction) and x.denominator in ALLOWED:
        m = re.fullmatch(r"(?:(\d+) )?(\d+)/(\d+)", out)
        if not m:
            return f"{x} (allowed denominator) not shown as a fraction: {out!r}"
        i, n, d = int(m.group(1) or 0), int(m.group(2)), int(m.group(3))
        if not (0 < n < d and math.gcd(n, d) == 1 and i + Fraction(n, d) == x):
            return f"{x} shown as {out!r}: not the exact proper/mixed fraction in lowest terms"
        if m.group(1) is not None and i == 0:
            return f"{x} shown as {out!r}: zero integer part"
        if parse_number(out) != x:
            return f"{out!r} reads back as {parse_number(out)} not {x}"
        return None
    # decimal rendering
    true = Fraction(float(x)) if isinstance(x, Fraction) else Fraction(x)
    if not re.fullmatch(r"[0-9]+(\.[0-9]*[1-9])?", out):
        return f"{x!r} shown as {out!r}: not plain decimal notation without trailing zeros"
    if len(out) > 1 and out[0] == "0" and out[1] != ".":
        return f"{x!r} shown as {out!r}: leading zero"
    shown = Fraction(out)
    places = sigfig_expected_places(true)
    unit = Fraction(1, 10 ** places)
    if shown % unit != 0:
        return f"{x!r} shown as {out!r}: more than three significant figures"
    if abs(shown - true) > unit / 2:
        return f"{x!r} shown as {out!r}: not correctly rounded to three significant figures ({places} places)"
    back = parse_number(out)
    # reading back yields a float: allow its own representation error on exact ties
    if abs(Fraction(back) - true) > unit / 2 + Fraction(math.ulp(float(back))):
        return f"{out!r} reads back as {back!r}, more than half a unit from {x!r}"
    return None


def make_case(x: Any) -> Case:
    out = impl(x)
    tags = [type(x).__name__]
    if isinstance(x, float):
        tags.append("float<0.1" if x < 0.1 else "float<1000" if x < 1000 else "float>=1000")
    if isinstance(x, Fraction):
        tags.append("frac-allowed" if x.denominator in ALLOWED else "frac-int" if x.denominator == 1 else "frac-decimal")
    return Case(
        input=coqio.num_json(x), coq_in=coqio.num(x), coq_out=coqio.string(out), impl=out,
        violation=oracle(x, out), nontrivial=not (isinstance(x, int) and x < 1000), tags=tags,
    )


def replay(inp: Any) -> Case:
    return make_case(coqio.num_unjson(inp))


def known_match(finding: Any, case: Case) -> bool:
    if finding.get("matches") == "below_tenth_three_places":
        x = coqio.num_unjson(case.input)
        if isinstance(x, int):
            return False
        v = Fraction(float(x)) if isinstance(x, Fraction) else Fraction(x)
        if isinstance(x, Fraction) and x.denominator in ALLOWED:
            return False
        if not (0 < v < Fraction(1, 10)):
            return False
        # the known behaviour: correctly rounded to three decimal PLACES
        try:
            shown = Fraction(case.impl)
        except Exception:
            return False
        return shown % Fraction(1, 1000) == 0 and abs(shown - v) <= Fraction(1, 2000) \
            and re.fullmatch(r"[0-9]+(\.[0-9]*[1-9])?", case.impl) is not None
    return False


# ---------------------------------------------------------------- generators

def ulps(x: float, k: int) -> float:
    for _ in range(abs(k)):
        x = math.nextafter(x, math.inf if k > 0 else -math.inf)
    return x


def gen_values(rng: random.Random, n: int) -> List[Any]:
    vals: List[Any] = []
    # ints
    vals += [0, 1, 9, 10, 99, 100, 999, 1000, 12345, 10 ** 15]
    vals += [rng.randrange(0, 10 ** rng.randrange(1, 16)) for _ in range(n // 10)]
    # fractions
    for _ in range(n // 5):
        d = rng.choice(ALLOWED + (9, 10, 11, 13, 15, 20, 32, 100, 1000))
        num = rng.randrange(0, d * rng.choice((1, 3, 40, 2000)) + 1)
        f = Fraction(num, d) * rng.choice((1, 2, 3, Fraction(1, 2), Fraction(2, 3), Fraction(7, 4)))
        vals.append(f)
    # floats on and near boundaries:  k * 10^-j  +- few ulps,  (k + 1/2) * 10^-j
    for _ in range(n // 3):
        j = rng.randrange(0, 6)
        k = rng.randrange(0, 10 ** rng.randrange(1, 7))
        base = Fraction(2 * k + rng.choice((0, 1)), 2 * 10 ** j)
        x = float(base)
        vals.append(ulps(x, rng.randrange(-3, 4)) if x > 0 else x)
    # exact dyadic ties and just below powers of ten
    for _ in range(n // 10):
        vals.append(rng.randrange(0, 4000) / rng.choice((2, 4, 8, 16, 32, 64, 2048)))
        p = 10.0 ** rng.randrange(-3, 15)
        vals.append(ulps(p, -rng.randrange(0, 3)))
        vals.append(p * rng.choice((0.9995, 0.99949999, 0.9996, 9.995, 9.9949999, 0.09995)))
    # random magnitudes
    for _ in range(n // 5):
        vals.append(rng.random() * 10 ** rng.randrange(-4, 15))
    vals += [0.0, 0.5, 1.5, 2.5, 0.125, 0.0625, 0.0005, 0.00045, 0.012345, 99.95, 9.995, 0.9996, 999.5, 1e15, 1e-300,
             5e-324]
    vals = [v for v in vals if v >= 0 and v <= 10 ** 15]
    return vals


def suites(tier: str, seed: int) -> List[Suite]:
    su = Suite(
        name="numfmt",
        imports=["From RG Require Import Model.NumFmt."],
        in_ty="num", out_ty="str", check="check_format", show="format_number",
    )
    if tier == "replay":
        return [su]
    rng = random.Random(seed * 7919 + 11)
    n = 3000 if tier == "quick" else 60000
    seen = set()
    for v in gen_values(rng, n):
        c = make_case(v)
        if c.key() in seen:
            continue
        seen.add(c.key())
        su.cases.append(c)
    return [su]
