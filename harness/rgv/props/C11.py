"""C11 - displayed numbers are correctly rounded, exact when they can be."""
from __future__ import annotations

import math
import random
import re
from fractions import Fraction
from typing import Any, List, Optional

from .. import coqio
from ..api import Case, Suite

ID = "C11"
PROPS_FILE = "Props/C11.v"
GEN_DEPS = ["GenConsts"]
ALLOWED_AXIOMS: List[str] = []
THEOREMS = {
    "C11_examples": "example",
    "C11_dec_roundtrip": "full",
    "C11_dec_all_digits": "full",
    "C11_dec_no_leading_zero": "full",
    "C11_dec_no_leading_zero_ex": "example",
    "C11_dec_fuel_sufficient": "full",
    "C11_dec_fuel_sufficient_ex": "example",
    "C11_dec_length": "full",
    "C11_dec_length_ex": "example",
    "C11_digits_fixed_length": "full",
    "C11_digits_fixed_value": "full",
    "C11_rstrip0_value": "full",
    "C11_rstrip0_suffix": "full",
    "C11_rstrip0_no_trailing_zero": "full",
    "C11_int_exact": "full",
    "C11_int_exact_ex": "example",
    "C11_fraction_exact": "full",
    "C11_fraction_exact_ex": "example",
    "C11_fraction_value_Q": "full",
    "C11_fraction_value_Q_ex": "example",
    "C11_plain_decimal": "full",
    "C11_plain_decimal_ex": "example",
    "C11_no_leading_zero": "full",
    "C11_no_leading_zero_ex": "example",
    "C11_decimal_path": "full",
    "C11_decimal_path_ex": "example",
    "C11_paths": "full",
    "C11_paths_ex": "example",
    "C11_correctly_rounded": "full",
    "C11_correctly_rounded_ex": "example",
    "C11_correctly_rounded_Q": "full",
    "C11_correctly_rounded_Q_ex": "example",
    "C11_carry_consistent": "full",
    "C11_carry_consistent_ex": "example",
    "C11_rne_div_spec": "full",
    "C11_rne_div_unique": "full",
    "C11_rne_div_ex": "example",
    "C11_three_sig_figs": "full",
    "C11_three_sig_figs_ex": "example",
    "C11_int_digits": "full",
    "C11_int_digits_ex": "example",
    "C11_sigfig_below_tenth_refuted": "refuted",
    "C11_sigfig_below_tenth_examples": "example",
    "C11_readback": "full",
    "C11_readback_ex": "example",
    "C11_readback_Q": "full",
    "C11_readback_Q_ex": "example",
    "C11_readback_number": "full",
    "C11_readback_number_ex": "example",
}
TRUSTED = [
    "Coq 8.16.1 kernel (coqc, vm_compute for correspondence only)",
    "model of CPython: format(x,'.nf') and round(x) are correctly rounded (ties to even) on the exact binary value; "
    "math.modf exact; float(Fraction) correctly rounded (Base/Num.v b64)",
    "translator: GenConsts (significant_figures default, allowed_denominators default) read from the live functions",
    "correspondence harness: rgv/props/C11.py generators, coqio serialiser, in-Coq string equality",
    "reader model Model/NumParse.v: tied to number_parser.number by suite numparse on the texts the formatter produces "
    "(plus spacing / leading-zero / zero-denominator variants); float(text) is taken to be the correctly rounded "
    "binary64 value of the exact decimal (checked there with b64); other int()/float() syntaxes are outside the model",
]
ASSUMPTIONS = ["numbers are non-negative and below 1e15 (recipes cannot express negative numbers)"]
RULE = ("ints, Fractions (allowed and other denominators, times scale factors) and floats placed on and within a few "
        "ulps of every rounding boundary at every digit position, exact ties, just below powers of ten, random; "
        "a case is non-trivial when it is not an int below 1000; distinct = distinct (type, value)")

ALLOWED = (2, 3, 4, 5, 6, 7, 8, 12, 16)


# ---------------------------------------------------------------- implementation side

def impl(x: Any) -> str:
    from recipe_grid.number_formatting import format_number
    return format_number(x)


def sigfig_expected_places(x: Fraction) -> int:
    """Decimal places at which 3 significant figures sit (0 once there are >= 3 integer digits)."""
    if x == 0:
        return 0
    e = 0
    # floor(log10 x) exactly
    if x >= 1:
        while x >= Fraction(10) ** (e + 1):
            e += 1
    else:
        while x < Fraction(10) ** e:
            e -= 1
    return max(0, 2 - e)


def oracle(x: Any, out: str) -> Optional[str]:
    """The property's wording, checked on the implementation's output."""
    from recipe_grid.number_parser import number as parse_number
    if isinstance(x, int):
        return None if out == str(x) else f"int {x} shown as {out!r}"
    if isinstance(x, Fraction) and x.denominator == 1:
        return None if out == str(x.numerator) else f"integral fraction {x} shown as {out!r}"
    if isinstance(x, Fraction) and x.denominator in ALLOWED:
        m = re.fullmatch(r"(?:(\d+) )?(\d+)/(\d+)", out)
        if not m:
            return f"{x} (allowed denominator) not shown as a fraction: {out!r}"
        i, n, d = int(m.group(1) or 0), int(m.group(2)), int(m.group(3))
        if not (0 < n < d and math.gcd(n, d) == 1 and i + Fraction(n, d) == x):
            return f"{x} shown as {out!r}: not the exact proper/mixed fraction in lowest terms"
        if m.group(1) is not None and i == 0:
            return f"{x} shown as {out!r}: zero integer part"
        if parse_number(out) != x:
            return f"{out!r} reads back as {parse_number(out)} not {x}"
        return None
    # decimal rendering
    true = Fraction(float(x)) if isinstance(x, Fraction) else Fraction(x)
    if not re.fullmatch(r"[0-9]+(\.[0-9]*[1-9])?", out):
        return f"{x!r} shown as {out!r}: not plain decimal notation without trailing zeros"
    if len(out) > 1 and out[0] == "0" and out[1] != ".":
        return f"{x!r} shown as {out!r}: leading zero"
    shown = Fraction(out)
    places = sigfig_expected_places(true)
    unit = Fraction(1, 10 ** places)
    if shown % unit != 0:
        return f"{x!r} shown as {out!r}: more than three significant figures"
    if abs(shown - true) > unit / 2:
        return f"{x!r} shown as {out!r}: not correctly rounded to three significant figures ({places} places)"
    back = parse_number(out)
    # reading back yields a float: allow its own representation error on exact ties
    if abs(Fraction(back) - true) > unit / 2 + Fraction(math.ulp(float(back))):
        return f"{out!r} reads back as {back!r}, more than half a unit from {x!r}"
    return None


def make_case(x: Any) -> Case:
    out = impl(x)
    tags = [type(x).__name__]
    if isinstance(x, float):
        tags.append("float<0.1" if x < 0.1 else "float<1000" if x < 1000 else "float>=1000")
    if isinstance(x, Fraction):
        tags.append("frac-allowed" if x.denominator in ALLOWED else "frac-int" if x.denominator == 1 else "frac-decimal")
    return Case(
        input=coqio.num_json(x), coq_in=coqio.num(x), coq_out=coqio.string(out), impl=out,
        violation=oracle(x, out), nontrivial=not (isinstance(x, int) and x < 1000), tags=tags,
    )


def parse_impl(text: str) -> Any:
    """number_parser.number on [text]: the number, "ZeroDivisionError" or "ValueError"."""
    from recipe_grid.number_parser import number as parse_number
    try:
        return parse_number(text)
    except ZeroDivisionError:
        return "ZeroDivisionError"
    except ValueError:
        return "ValueError"


def make_parse_case(text: str, tag: str) -> Case:
    """Reader model (Model/NumParse.v) against number_parser.number on a text inside the modelled syntax."""
    r = parse_impl(text)
    if r == "ZeroDivisionError":
        out, shown, viol = coqio.opt(None, "num"), r, None
    elif r == "ValueError":
        out, shown = coqio.opt(None, "num"), r
        viol = f"{text!r} (a text of the kind format_number produces) is rejected by number_parser.number"
    else:
        out, shown, viol = coqio.opt(coqio.num(r)), repr(r), None
    return Case(input={"text": text}, coq_in=coqio.string(text), coq_out=out, impl=shown, violation=viol,
                nontrivial=not text.isdigit() or len(text) > 3, tags=["parse-" + tag])


def replay(inp: Any) -> Case:
    if "text" in inp:
        return make_parse_case(inp["text"], "replay")
    if isinstance(inp, dict) and inp.get("kind") == "standalone":
        cs = make_standalone_cases(inp["n"], inp["m"], [coqio.num_unjson(q) for q in inp["qs"]])
        bad = [c_ for c_ in cs if c_.violation]
        return (bad or cs)[0]
    if isinstance(inp, dict) and inp.get("kind") == "note":
        return make_note_case(coqio.num_unjson(inp["k"]))
    if isinstance(inp, dict) and inp.get("kind") == "svs":
        return make_svs_case(coqio.num_unjson(inp["v"]), coqio.num_unjson(inp["k"]))
    if isinstance(inp, dict) and inp.get("kind") in ("prop", "qty"):
        return make_shown_case(inp["kind"], coqio.num_unjson(inp["v"]), inp["extra"])
    return make_case(coqio.num_unjson(inp))


def known_match(finding: Any, case: Case) -> bool:
    if finding.get("matches") == "below_tenth_three_places":
        if isinstance(case.input, dict) and "text" in case.input:
            return False
        shown_text = case.impl
        if isinstance(case.input, dict) and "kind" in case.input:
            x = coqio.num_unjson(case.input["true"])
            shown_text = case.input["shown"]
        else:
            x = coqio.num_unjson(case.input)
        if isinstance(x, int):
            return False
        v = Fraction(float(x)) if isinstance(x, Fraction) else Fraction(x)
        if isinstance(x, Fraction) and x.denominator in ALLOWED:
            return False
        if not (0 < v < Fraction(1, 10)):
            return False
        # the known behaviour: correctly rounded to three decimal PLACES
        try:
            shown = Fraction(shown_text)
        except Exception:
            return False
        return shown % Fraction(1, 1000) == 0 and abs(shown - v) <= Fraction(1, 2000) \
            and re.fullmatch(r"[0-9]+(\.[0-9]*[1-9])?", shown_text) is not None
    return False


# ---------------------------------------------------------------- generators

def ulps(x: float, k: int) -> float:
    for _ in range(abs(k)):
        x = math.nextafter(x, math.inf if k > 0 else -math.inf)
    return x


def gen_values(rng: random.Random, n: int) -> List[Any]:
    vals: List[Any] = []
    # ints
    vals += [0, 1, 9, 10, 99, 100, 999, 1000, 12345, 10 ** 15]
    vals += [rng.randrange(0, 10 ** rng.randrange(1, 16)) for _ in range(n // 10)]
    # fractions
    for _ in range(n // 5):
        d = rng.choice(ALLOWED + (9, 10, 11, 13, 15, 20, 32, 100, 1000))
        num = rng.randrange(0, d * rng.choice((1, 3, 40, 2000)) + 1)
        f = Fraction(num, d) * rng.choice((1, 2, 3, Fraction(1, 2), Fraction(2, 3), Fraction(7, 4)))
        vals.append(f)
    # floats on and near boundaries:  k * 10^-j  +- few ulps,  (k + 1/2) * 10^-j
    for _ in range(n // 3):
        j = rng.randrange(0, 6)
        k = rng.randrange(0, 10 ** rng.randrange(1, 7))
        base = Fraction(2 * k + rng.choice((0, 1)), 2 * 10 ** j)
        x = float(base)
        vals.append(ulps(x, rng.randrange(-3, 4)) if x > 0 else x)
    # exact dyadic ties and just below powers of ten
    for _ in range(n // 10):
        vals.append(rng.randrange(0, 4000) / rng.choice((2, 4, 8, 16, 32, 64, 2048)))
        p = 10.0 ** rng.randrange(-3, 15)
        vals.append(ulps(p, -rng.randrange(0, 3)))
        vals.append(p * rng.choice((0.9995, 0.99949999, 0.9996, 9.995, 9.9949999, 0.09995)))
    # random magnitudes
    for _ in range(n // 5):
        vals.append(rng.random() * 10 ** rng.randrange(-4, 15))
    # mixed numbers whose integer part is huge (exact integer arithmetic is required: float division rounds)
    for _ in range(max(4, n // 200)):
        d = rng.choice(ALLOWED)
        k = rng.randrange(2 ** 49, 10 ** 15 - 1)
        vals.append(Fraction(k * d + rng.choice([1, d - 1]), d))
    vals += [Fraction(999999999999999 * 16 + 15, 16), Fraction(562949953421312 * 16 + 15, 16)]
    # Fractions with HUGE numerators / denominators (beyond 10^6, beyond 2^53) a hair away from a displayable fraction or
    # from a rounding boundary: approximating the Fraction, or converting numerator and denominator to floats separately,
    # changes the class (fraction vs decimal) or the rounded digit
    vals += [Fraction(10 ** 12 + 1, 2 * 10 ** 12), Fraction(666666667, 10 ** 9), Fraction(1235 * 10 ** 9 + 1, 10 ** 13),
             Fraction(9 * 2 ** 57 + 2431, 2 ** 60 + 1921), Fraction(1005 * 10 ** 20 - 7, 10 ** 21), Fraction(5005 * 10 ** 18 - 15, 10 ** 19)]
    for _ in range(max(6, n // 100)):
        big = 10 ** rng.randrange(7, 40) + rng.randrange(1, 1000)
        target = rng.choice([Fraction(1, 2), Fraction(2, 3), Fraction(5, 16), Fraction(1235, 10000), Fraction(2005, 2), Fraction(9, 8),
                             Fraction(1001, 10), Fraction(12345, 100), Fraction(999, 2)])
        eps = Fraction(rng.choice([1, -1]), big)
        vals.append(target + eps)
        vals.append(Fraction(rng.randrange(2 ** 53, 2 ** 70), rng.randrange(2 ** 53, 2 ** 64) | 1))
    vals += [0.0, 0.5, 1.5, 2.5, 0.125, 0.0625, 0.0005, 0.00045, 0.012345, 99.95, 9.995, 0.9996, 999.5, 1e15, 1e-300,
             5e-324]
    vals = [v for v in vals if v >= 0 and v <= 10 ** 15]
    return vals


# ---------------------------------------------------------------- numbers as shown inside rendered HTML

def _shown_number(html_text: str) -> str:
    """The number text at the start of a rendered quantity / proportion (tags removed, &frasl; -> '/')."""
    import html as H
    txt = re.sub(r"<ul.*?</ul>", "", html_text, flags=re.S)
    txt = H.unescape(re.sub(r"<[^>]*>", "", txt)).replace("\u2044", "/")
    txt = txt.strip()          # t() re-indents bodies that hold the conversions list
    m = re.match(r"(?:\d+ )?\d+/\d+|\d+(?:\.\d+)?", txt)
    return m.group(0) if m else txt


# exact metric / kitchen ratios (documented constants, written here independently of units.py): an exact amount in one of
# these units has an exact rational amount in the others, which must be SHOWN exactly (fraction / integer), not as a
# rounded decimal
EXACT_RATIOS = {"ml": Fraction(1), "l": Fraction(1000), "tsp": Fraction(5), "tbsp": Fraction(15),
                "g": Fraction(1), "kg": Fraction(1000)}
EXACT_KIND = {"ml": "v", "l": "v", "tsp": "v", "tbsp": "v", "g": "m", "kg": "m"}


def conversions_oracle(v: Any, unit: Any, out: str) -> Optional[str]:
    import html as H
    if unit is None or unit.lower() not in EXACT_RATIOS:
        return None
    u = unit.lower()
    for li in re.findall(r"<li>(.*?)</li>", out, flags=re.S):
        txt = H.unescape(re.sub(r"<[^>]*>", "", li)).replace("\u2044", "/").strip()
        m = re.match(r"((?:\d+ )?\d+/\d+|\d+(?:\.\d+)?)\s*(.*)$", txt)
        if not m:
            return f"conversion entry {txt!r} of {v} {unit} has no number"
        alt = m.group(2).strip().lower()
        if alt in EXACT_RATIOS and EXACT_KIND[alt] == EXACT_KIND[u]:
            want = Fraction(v) * EXACT_RATIOS[u] / EXACT_RATIOS[alt]
            if want.denominator != 1 and want.denominator not in ALLOWED:
                continue        # shown as a rounded decimal: the model comparison covers it (and F9 below 0.1)
            w = oracle(want if want.denominator != 1 else int(want), m.group(1))
            if w:
                return f"{v} {unit} shown as {txt!r} in the conversion list: " + w
    return None


def make_shown_case(kind: str, v: Any, extra: Any) -> Case:
    import recipe_grid.recipe as R
    from recipe_grid.renderer import html as RH
    from .. import ser
    if kind == "prop":
        pc, prep = extra
        obj = R.Proportion(v, pc, None, prep)
        out = RH.render_proportion(obj)
        true = v * 100 if pc else v
        coq_in = ser.proportion(obj)
    else:
        unit, sp, prep = extra
        obj = R.Quantity(v, unit, sp, prep)
        out = RH.render_quantity(obj)
        true = v
        coq_in = ser.quantity(obj)
    shown = _shown_number(out)
    viol = oracle(true, shown)
    if viol:
        viol = f"{kind} {v!r} rendered as {out!r}: " + viol
    if viol is None and kind == "qty" and not isinstance(v, float):
        viol = conversions_oracle(v, extra[0], out)
    c = Case(input={"kind": kind, "v": coqio.num_json(v), "extra": extra, "true": coqio.num_json(true), "shown": shown}, coq_in=coq_in,
             coq_out=f"(Units.Ok {coqio.string(out)})", impl=out, violation=viol, nontrivial=True,
             tags=["shown-" + kind, type(v).__name__])
    return c


def _plain_number(html_text: str) -> str:
    import html as H
    return H.unescape(re.sub(r"<[^>]*>", "", html_text)).replace("\u2044", "/")


def make_note_case(k: Any) -> Optional[Case]:
    """The 'Scaled N x' note under a title without serving count shows the factor like every other number."""
    from recipe_grid.markdown import compile_markdown
    out = compile_markdown("# Plain title\n\n    1 egg\n").render(k)
    m = re.search(r'<span class="rg-scaling-factor">(.*?)&times;\s*</span>', out, flags=re.S)
    if m is None:
        return Case(input={"kind": "note", "k": coqio.num_json(k)}, coq_in=coqio.num(k), coq_out=coqio.string(""), impl=out[:300],
                    violation=f"no 'Scaled N x' note when rendering at factor {k!r}", nontrivial=True, tags=["note"])
    shown = _plain_number(m.group(1)).strip()
    viol = oracle(k, shown)
    if viol:
        viol = f"scaling note for factor {k!r} shows {shown!r}: " + viol
    return Case(input={"kind": "note", "k": coqio.num_json(k), "true": coqio.num_json(k), "shown": shown}, coq_in=coqio.num(k), coq_out=coqio.string(shown), impl=shown,
                violation=viol, nontrivial=True, tags=["note", type(k).__name__])


def make_svs_case(v: Any, k: Any) -> Case:
    """A number inside a scaled-value string (ingredient / step text, Markdown prose), scaled by k, as shown."""
    from recipe_grid.scaled_value_string import ScaledValueString as SVS
    from recipe_grid.renderer import html as RH
    out = RH.render_scaled_value_string(SVS(["use ", v, " eggs"]).scale(k))
    true = v * k
    m = re.fullmatch(r'use (?:<span class="rg-scaled-value">(.*?)</span>)? eggs', out, flags=re.S)
    shown = _plain_number(m.group(1) or "").strip() if m else out
    viol = oracle(true, shown)
    if viol:
        viol = f"{v!r} scaled by {k!r} inside a string rendered as {out!r}: " + viol
    return Case(input={"kind": "svs", "v": coqio.num_json(v), "k": coqio.num_json(k), "true": coqio.num_json(true), "shown": shown}, coq_in=coqio.num(true),
                coq_out=coqio.string(shown), impl=out, violation=viol, nontrivial=True, tags=["svs", type(true).__name__])


def make_standalone_cases(n: int, m: int, qs: List[Any]) -> List[Case]:
    """The stand-alone page of a recipe "for n" asked for m servings shows every number times EXACTLY m/n (a rational):
    numbers that can be shown exactly (integers, allowed-denominator fractions) must be."""
    import tempfile
    import pathlib
    from recipe_grid.static_site.standalone_page import generate_standalone_page
    from recipe_grid.number_formatting import format_number as _fmt
    lines = "".join(f"    {_fmt(q)} thing{i}\n" for i, q in enumerate(qs))
    text = f"# Test for {n}\n\nUse {{{_fmt(qs[0])}}} here.\n\n{lines}"
    with tempfile.TemporaryDirectory() as d:
        fn = pathlib.Path(d) / "r.md"
        fn.write_text(text)
        page = generate_standalone_page(fn, servings=m)
    shown = [_shown_number(x) for x in re.findall(r'<span class="[^"]*rg-scaled-value[^"]*"[^>]*>(.*?)</span>', page, flags=re.S)]
    want = [Fraction(m), Fraction(qs[0]) * m / n] + [Fraction(q) * m / n for q in qs]
    out: List[Case] = []
    if len(shown) < len(want):
        return [Case(input={"kind": "standalone", "n": n, "m": m, "qs": [coqio.num_json(q) for q in qs]}, coq_in=coqio.num(0),
                     coq_out=coqio.string(""), impl=shown, nontrivial=True, tags=["standalone"],
                     violation=f"stand-alone page for {m} of {n} servings shows {len(shown)} scaled values, {len(want)} expected")]
    for w, sh in zip(want, shown):
        v = int(w) if w.denominator == 1 else w
        viol = oracle(v, sh)
        if viol:
            viol = f"stand-alone page for {m} servings of a recipe for {n}: {viol}"
        out.append(Case(input={"kind": "standalone", "n": n, "m": m, "qs": [coqio.num_json(q) for q in qs], "true": coqio.num_json(v),
                               "shown": sh}, coq_in=coqio.num(v), coq_out=coqio.string(sh), impl=sh, violation=viol, nontrivial=True,
                        tags=["standalone", type(v).__name__]))
    return out


def suites(tier: str, seed: int) -> List[Suite]:
    sh_p = Suite(name="shownprop", imports=["From RG Require Import Model.Recipe Model.Units Model.Html Model.HtmlChecks."],
                 in_ty="proportion", out_ty="Units.res str", check="check_render_proportion", show="render_proportion")
    sh_q = Suite(name="shownqty", imports=["From RG Require Import Model.Recipe Model.Units Model.Html Model.HtmlChecks."],
                 in_ty="quantity", out_ty="Units.res str", check="check_render_quantity'", show="render_quantity")
    su = Suite(
        name="numfmt",
        imports=["From RG Require Import Model.NumFmt."],
        in_ty="num", out_ty="str", check="check_format", show="format_number",
    )
    sp = Suite(
        name="numparse",
        imports=["From RG Require Import Model.NumParse."],
        in_ty="str", out_ty="(option num)", check="check_parse", show="parse_number",
    )
    sa = Suite(name="standalone", imports=["From RG Require Import Model.NumFmt."], in_ty="num", out_ty="str", check="check_format",
               show="format_number")
    sn = Suite(name="scalenote", imports=["From RG Require Import Model.NumFmt."], in_ty="num", out_ty="str", check="check_format",
               show="format_number")
    ss = Suite(name="shownsvs", imports=["From RG Require Import Model.NumFmt."], in_ty="num", out_ty="str", check="check_format",
               show="format_number")
    if tier == "replay":
        return [su, sp, sh_p, sh_q, sn, ss, sa]
    rng = random.Random(seed * 7919 + 11)
    n = 3000 if tier == "quick" else 60000
    seen = set()
    for v in gen_values(rng, n):
        c = make_case(v)
        if c.key() in seen:
            continue
        seen.add(c.key())
        su.cases.append(c)
    # reader: every text the formatter produced, plus spacing / leading-zero / zero-denominator variants
    texts = {}
    for c in su.cases:
        texts.setdefault(c.impl, "shown")
    for c in [c for c in su.cases if "/" in c.impl][: n // 10]:
        if True:
            num_, den = c.impl.split("/")
            blank = rng.choice((" ", "\t", "  ", " \t "))
            texts.setdefault(num_.replace(" ", blank) + rng.choice(("", " ", "\t")) + "/" + rng.choice(("", " ", "\t ")) + den,
                             "spaced")
            texts.setdefault(num_ + "/0", "zero-den")
            texts.setdefault("0" + num_ + "/0" + den, "leading-zero")
    for tx in ("3 /4", "12 /3", "12\t/ 3", "4/2", "0 1/2", "1 4/2", "007", "0012", "00.50", "0.000", "123456789012345678901234567890",
               "0.1", "0.30000000000000004", "9007199254740993.5", "1/0", "2 1/0", "0/5", "0 0/5"):
        texts.setdefault(tx, "hand")
    for tx, tag in texts.items():
        sp.cases.append(make_parse_case(tx, tag))
    # numbers as they are shown inside rendered proportions / quantities (renderer/html.py)
    rng2 = random.Random(seed * 31 + 5)
    vals = [v for v in gen_values(rng2, 600 if tier == "quick" else 6000) if v < 10 ** 12]
    for v in vals:
        pc = rng2.random() < 0.5
        pv = v
        if pc and isinstance(v, int):
            pv = v / 100
        elif pc:
            pv = v / 100
        try:
            sh_p.cases.append(make_shown_case("prop", pv, [pc, rng2.choice(["% of the", " of", " *", "%"])]))
            sh_q.cases.append(make_shown_case("qty", v, [rng2.choice([None, "sprigs", "Handful"]), rng2.choice(["", " "]), rng2.choice(["", " of"])]))
        except OverflowError:
            pass
    for fr in (Fraction(1, 3), Fraction(1, 6), Fraction(1, 800), Fraction(1, 8), Fraction(2, 3), Fraction(1, 7), Fraction(5, 12)):
        sh_p.cases.append(make_shown_case("prop", fr, [True, "% of the"]))
    # numerically equal values of different types, same unit / spacing / preposition, one after the other in this
    # process (a cache keyed by dataclass == would hand the first one's text to the second)
    for a, b in ((0.5, Fraction(1, 2)), (Fraction(1, 4), 0.25), (1.5, Fraction(3, 2)), (Fraction(3, 1), 3), (2.0, 2), (Fraction(7, 8), 0.875)):
        for u in ("tsp", None, "sprigs"):
            ex = [u, " " if u else "", " of"]
            sh_q.cases.append(make_shown_case("qty", a, ex))
            sh_q.cases.append(make_shown_case("qty", b, ex))
            sh_q.cases.append(make_shown_case("qty", a, ex))
        sh_p.cases.append(make_shown_case("prop", a, [False, " of the"]))
        sh_p.cases.append(make_shown_case("prop", b, [False, " of the"]))
    # quantities in known units whose CONVERSIONS are >= 1000 / non-integral (the conversions list is compared string-exactly with
    # the model: every number in it goes through the proved format_number)
    rng3 = random.Random(seed * 101 + 3)
    for _ in range(150 if tier == "quick" else 3000):
        u = rng3.choice(["lb", "lbs", "cups", "kg", "oz", "pints", "tbsp", "l", "tsp", "g", "ml", "quart", "Kg", "TSP", "Tbsp",
                         "tins", "Cloves", "Cans", "packs", "boxen", "PINCH", "Mug", "Handfuls", "big Sprigs"])
        v = rng3.choice([rng3.randrange(1, 40), rng3.randrange(1, 4000), Fraction(rng3.randrange(1, 200), rng3.choice(ALLOWED)),
                         rng3.randrange(1, 4000) / 8, round(rng3.random() * 3000, 2)])
        try:
            sh_q.cases.append(make_shown_case("qty", v, [u, rng3.choice(["", " "]), rng3.choice(["", " of"])]))
        except (OverflowError, KeyError):
            pass
    for v, u in ((3, "lb"), (8, "cups"), (2.6, "lb"), (Fraction(7, 2), "lb"), (1000, "kg"), (999.5, "g"), (2999.5, "g")):
        sh_q.cases.append(make_shown_case("qty", v, [u, " ", ""]))
    sn.cases = [c for c in (make_note_case(k) for k in
                            [2, 3, 10, Fraction(1, 3), Fraction(8, 3), Fraction(5, 4), Fraction(22, 7), 1 / 3, 2.6666, 1.23456, 2e-05, 0.5,
                             1.5, 2.0, 1234.5678, 0.001234, 1e-3, 12345678.9] +
                            [v for v in gen_values(random.Random(seed * 57 + 1), 150 if tier == "quick" else 3000) if 0 < v < 10 ** 12 and v != 1])
                if c is not None]
    zs = [0, 0.0, Fraction(0), 1, 0.5, Fraction(1, 3), 2.5, 1000, 0.004]
    for v in zs:
        for k in (1, 0, Fraction(1, 2), 3, 0.0):
            ss.cases.append(make_svs_case(v, k))
    for v in [x for x in gen_values(random.Random(seed * 59 + 2), 100 if tier == "quick" else 2000) if x < 10 ** 12]:
        ss.cases.append(make_svs_case(v, 1))
    rng4 = random.Random(seed * 61 + 9)
    for n_, m_ in [(3, 1), (3, 2), (3, 4), (6, 1), (6, 5), (2, 3), (4, 1), (7, 3), (3, 3), (12, 5)][: 10 if tier == "quick" else 10]:
        qs = [1, 2, Fraction(5, 2), 10, rng4.randrange(1, 50), Fraction(rng4.randrange(1, 20), rng4.choice([2, 3, 4, 8]))]
        sa.cases += make_standalone_cases(n_, m_, qs)
    return [su, sp, sh_p, sh_q, sn, ss, sa]
