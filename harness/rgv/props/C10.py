"""C10 - recipe text is inert: user strings never become markup (cell level)."""
from __future__ import annotations

import copy
import html as _html
import random
import re
from fractions import Fraction
from html.parser import HTMLParser
from typing import Any, Dict, List, Optional, Tuple

from .. import coqio, ser
from ..api import Case, Suite
from ..gen import trees as G

ID = "C10"
PROPS_FILE = "Props/C10.v"
GEN_DEPS = ["GenUnits", "GenTemplates", "GenConsts"]
ALLOWED_AXIOMS: List[str] = []
THEOREMS: Dict[str, str] = {
    "C10_escape_inert": "full",
    "C10_escape_inert_merge": "full",
    "C10_escape_inert_before_tag": "full",
    "C10_attr_inert_in_tag": "full",
    "C10_attr_inert": "full",
    "C10_id_charset": "full",
    "C10_cell_skeleton_partial": "partial",
    "C10_cell_inert": "full",
    "C10_template_sinks": "full",
    "C10_markup_escape_inert": "full",
    "C10_ex_tokenize": "example",
    "C10_ex_escape": "example",
    "C10_ex_sinks": "example",
    "C10_ex_cell": "example",
    "C10_ex_id": "example",
}
TRUSTED = [
    "Coq 8.16.1 kernel (vm_compute for correspondence)",
    "Model/HtmlTok.v: the tokenizer specification is a hand transcription of the WHATWG tokenizer restricted to "
    "data / tags / quoted attributes / character references (validated against Python's html.parser on every "
    "rendered table of the cells suite)",
    "Model/Html.v: hand transcription of renderer/html.py, xml.sax.saxutils.quoteattr, html.escape, "
    "textwrap.indent, str.splitlines/rstrip (validated string-exactly by suites cells, escape, tfun)",
    "translator GenTemplates: Jinja's own lexer (env.lex) classifies every {{ }} sink of the site templates; "
    "Jinja's autoescape engine and markupsafe.escape themselves are runtime (modelled: & < > \" ' -> "
    "&amp; &lt; &gt; &#34; &#39;)",
    "site pages: Jinja's engine and libxml2's re-serialisation in postprocess_html are runtime, observed by suite "
    "sitesinks (oracle on the generated pages + model of markupsafe.escape on the emitted texts), not modelled",
    "correspondence harness rgv/props/C10.py, rgv/gen/trees.py, ser.py, in-Coq comparison",
]
ASSUMPTIONS = [
    "numbers are non-negative (recipes cannot express negative numbers)",
    "CR/CRLF input-stream normalisation of the HTML standard is not modelled (user text cannot contain CR: the "
    "grammar excludes it)",
]
RULE = ("cells: random recipe trees (shared generator shapes) decorated with adversarial strings "
        "(< > & \" ' \\ { } % # * tabs, NBSP, U+2028, U+0085, combining marks, astral characters, ready-made "
        "entities and tags) in ingredient names, step descriptions, output names, free-form units, prepositions, "
        "remainder wordings and id prefixes, every quantity / proportion form, known units in mixed case (with "
        "alternative-unit lists); layout rows taken from the implementation; tok: the rendered tables through the "
        "tokenizer specification vs html.parser; escape/tfun: quoteattr, html.escape and t() on random strings; "
        "sitesinks: small generated sites whose recipe / category / site titles (via Markdown, incl. titles that "
        "decode to <b> and quotes), directory names and file names are adversarial, each compared token by token "
        "with its alphabetic twin site (same structure, texts = the original strings, hrefs = the quoted paths) and "
        "the texts Jinja emitted compared with the model of markupsafe.escape; recipe pages must show their "
        "(backslash-laden) ingredient names verbatim; tok also holds whole pages of compile_markdown(doc).render(k) "
        "whose ingredient / step / output names and units contain backslashes, \\1, \\g<0>, $1, quotes (visible "
        "text of every td against the compiled recipe); standalone pages (generate_standalone_page) for H1 "
        "titles with & < > quotes, Markdown entities and serving counts written with ASCII and with non-ASCII decimal "
        "digits (only ASCII digits are a count): decoded <title> / <h1> against the title as written, structure "
        "against a plain title, raw <title> against the markupsafe model. "
        "Non-trivial = contains a character outside [A-Za-z0-9 ]; distinct = distinct input")

ADV = ["a", "b", "Z", " ", " ", "<", ">", "&", '"', "'", "\\", "{", "}", "%", "#", "/", "-", "_", ".", "*", ";", "=",
       "\t", "\u00a0", "\u2028", "\u0085", "\u00e9", "\u00df", "\u4e2d", "\U0001F35E", "\u200b", "\u0301",
       "<b>", "&amp;", "</td>", "&#60;", "&lt", "<!--", "]]>", "1", "0", "x"]
UNITS = [None, None, "g", "kg", "tsp", "Cups", "ml", "lb", "sack", "<i>", "fl&oz", "TBSP", "pint", "Tea Spoons",
         "tea\nspoon", "tea\tspoon", "o\"z", "it's", "KK", "Kg"]
PREPS = ["", " of", " of the", " OF  the", " <of>", " &", "\tof"]
PREFIXES = ["recipe-", "recipe2-", "sub-recipe-", "", "p\"q-", "a'b\"c-", "<x>&-", "r\u00e9-"]


def rand_text(rng: random.Random, lo: int = 1, hi: int = 8) -> str:
    return "".join(rng.choice(ADV) for _ in range(rng.randrange(lo, hi)))


def norm_parts(parts: List[Any]) -> List[Any]:
    """What a scaled value string holds for these parts: adjacent strings merged, empty strings dropped - and every
    number kept, whatever its value (written here independently of ScaledValueString.__init__)."""
    out: List[Any] = []
    for p in parts:
        if isinstance(p, str) and out and isinstance(out[-1], str):
            out[-1] += p
        else:
            out.append(p)
    return [p for p in out if not (isinstance(p, str) and p == "")]


def rand_svs_json(rng: random.Random) -> List[Any]:
    n = rng.choice((1, 1, 1, 2, 3, 4))
    parts: List[Any] = []
    for _ in range(n):
        if rng.random() < 0.25:
            # zero in every number type is a number like any other ("cola with 0 sugars", "mark 0.0", 0/4)
            parts.append(rng.choice((0, 0.0, Fraction(0, 4))) if rng.random() < 0.3 else G.rand_number(rng))
        else:
            parts.append(rand_text(rng))
    if not any(isinstance(p, str) and p for p in parts) and rng.random() < 0.8:
        parts.append(rand_text(rng))
    return [p if isinstance(p, str) else coqio.num_json(p) for p in norm_parts(parts)]


def rand_quantity_json(rng: random.Random) -> Any:
    unit = rng.choice(UNITS)
    if unit is not None and rng.random() < 0.15:
        unit = rand_text(rng, 1, 4)
    sp = rng.choice(("", " ", "  ", "\t")) if unit is not None else ""
    return {"q": [coqio.num_json(G.rand_number(rng)), unit, sp, rng.choice(PREPS)]}


def rand_proportion_json(rng: random.Random) -> Any:
    r = rng.random()
    if r < 0.2:
        return {"p": [coqio.num_json(1.0), False, None, ""]}
    if r < 0.4:
        return {"p": [None, False, rng.choice(("remaining", "rest", "left over <&>", "Remainder\"")),
                      rng.choice(("", " of the", " of", " <"))]}
    if r < 0.7:
        return {"p": [coqio.num_json(rng.choice((Fraction(1, 2), Fraction(1, 3), 0.5, 0.25, 1, Fraction(3, 4), 0.3333, 2))),
                      False, None, rng.choice(("", " of the", " *", " * ", "*<*>"))]}
    return {"p": [coqio.num_json(rng.choice((0.5, 0.25, Fraction(1, 4), 0.1, 1))), True, None,
                  rng.choice(("%", "% of the", " % <of>"))]}


def build_json(rng: random.Random, s: Any) -> Any:
    if s[0] == "I":
        return {"I": [rand_svs_json(rng), rand_quantity_json(rng) if rng.random() < 0.6 else None]}
    if s[0] == "R":
        names = [rand_svs_json(rng) for _ in range(rng.choice((1, 1, 2, 3)))]
        body: Any = {"I": [rand_svs_json(rng), None]}
        sub = {"SR": [body, names, rng.random() < 0.5]}
        amount = rand_quantity_json(rng) if rng.random() < 0.4 else rand_proportion_json(rng)
        return {"R": [sub, rng.randrange(len(names)), amount]}
    if s[0] == "S":
        return {"S": [rand_svs_json(rng), [build_json(rng, k) for k in s[1]]]}
    return {"SR": [build_json(rng, s[1]), [rand_svs_json(rng) for _ in range(s[2])], s[3]]}


def user_strings(j: Any) -> List[str]:
    out: List[str] = []

    def svs(x):
        out.extend(p for p in x if isinstance(p, str))

    def amount(a):
        if a is None:
            return
        vals = a["q"][1:] if "q" in a else a["p"][2:]
        out.extend(v for v in vals if isinstance(v, str))

    def go(n):
        if "I" in n:
            svs(n["I"][0]); amount(n["I"][1])
        elif "S" in n:
            svs(n["S"][0])
            for k in n["S"][1]:
                go(k)
        elif "R" in n:
            go(n["R"][0]); amount(n["R"][2])
        else:
            go(n["SR"][0])
            for x in n["SR"][1]:
                svs(x)
    go(j)
    return out


# ---------------------------------------------------------------- the alphabetic twin

def known_unit_name(u: str) -> bool:
    from recipe_grid.units import UNIT_SYSTEM
    return u.lower() in UNIT_SYSTEM


def twin_svs(j: List[Any]) -> List[Any]:
    return ["x" if isinstance(p, str) else p for p in j]


def twin_amount(a: Any) -> Any:
    if a is None:
        return None
    if "q" in a:
        v, u, sp, pr = a["q"]
        if u is not None:
            # a unit the unit system knows is kept (it selects the alternative-unit list): as its lower-case name
            u = u.lower() if known_unit_name(u) else "x"
        return {"q": [v, u, "x" if sp else "", "x" if pr else ""]}
    v, pc, w, pr = a["p"]
    return {"p": [v, pc, "x" if w is not None else None, "x" if pr else ""]}


def twin(j: Any) -> Any:
    if "I" in j:
        return {"I": [twin_svs(j["I"][0]), twin_amount(j["I"][1])]}
    if "S" in j:
        return {"S": [twin_svs(j["S"][0]), [twin(k) for k in j["S"][1]]]}
    if "R" in j:
        return {"R": [twin(j["R"][0]), j["R"][1], twin_amount(j["R"][2])]}
    return {"SR": [twin(j["SR"][0]), [twin_svs(n) for n in j["SR"][1]], j["SR"][2]]}


# ---------------------------------------------------------------- parsing the output (oracle / tok suite)

class Collector(HTMLParser):
    def __init__(self) -> None:
        super().__init__(convert_charrefs=True)
        self.tokens: List[Tuple[Any, ...]] = []

    def handle_starttag(self, tag, attrs):
        self.tokens.append(("start", tag, [(k, v) for k, v in attrs], False))

    def handle_startendtag(self, tag, attrs):
        self.tokens.append(("start", tag, [(k, v) for k, v in attrs], True))

    def handle_endtag(self, tag):
        self.tokens.append(("end", tag))

    def handle_data(self, data):
        if self.tokens and self.tokens[-1][0] == "text":
            self.tokens[-1] = ("text", self.tokens[-1][1] + data)
        else:
            self.tokens.append(("text", data))

    def handle_comment(self, data):
        self.tokens.append(("other", "comment"))

    def handle_decl(self, decl):
        self.tokens.append(("other", "decl"))

    def handle_pi(self, data):
        self.tokens.append(("other", "pi"))

    def unknown_decl(self, data):
        self.tokens.append(("other", "unknown"))


def parse_html(x: str) -> List[Tuple[Any, ...]]:
    c = Collector()
    c.feed(x)
    c.close()
    return c.tokens


def skeleton(tokens) -> List[Any]:
    out = []
    for t in tokens:
        if t[0] == "start":
            out.append(("start", t[1], [k for k, _ in t[2]], t[3]))
        elif t[0] == "end":
            out.append(("end", t[1]))
        elif t[0] == "other":
            out.append(t)
    return out


def collapse(x: str) -> str:
    return " ".join(x.split())


def fmt_visible(v: Any) -> str:
    """format_number as it is displayed by render_number (fraction slash)."""
    from recipe_grid.number_formatting import format_number
    x = format_number(v)
    if re.fullmatch(r"((?:\d+ )?)(\d+)/(\d+)", x):
        x = x.replace("/", "\u2044")
    return x


def svs_visible(s: Any) -> str:
    return "".join(p if isinstance(p, str) else fmt_visible(p) for p in s._string)


def amount_visible(a: Any) -> str:
    import recipe_grid.recipe as R
    if a is None:
        return ""
    if isinstance(a, R.Quantity):
        if a.unit is None:
            return fmt_visible(a.value) + a.preposition + " "
        return fmt_visible(a.value) + a.value_unit_spacing + a.unit + a.preposition + " "
    if a.value is None:
        return a.remainder_wording + a.preposition + " "
    if a.value == 1.0:
        return ""
    return fmt_visible(a.value * 100 if a.percentage else a.value) + a.preposition.replace("*", "\u00d7") + " "


def cell_visible(v: Any) -> str:
    import recipe_grid.recipe as R
    if isinstance(v, R.Ingredient):
        return amount_visible(v.quantity) + svs_visible(v.description)
    if isinstance(v, R.Reference):
        return amount_visible(v.amount) + svs_visible(v.sub_recipe.output_names[v.output_index])
    if isinstance(v, R.Step):
        return svs_visible(v.description)
    return " ".join(svs_visible(n) for n in v.output_names)


def td_texts(tokens) -> List[str]:
    """Visible text of each td, without the alternative-unit lists."""
    out: List[str] = []
    cur: Optional[List[str]] = None
    skip = 0
    for t in tokens:
        if t[0] == "start" and t[1] == "td":
            cur = []
        elif t[0] == "end" and t[1] == "td":
            if cur is not None:
                out.append("".join(cur))
            cur = None
        elif cur is not None:
            if t[0] == "start" and t[1] == "ul" and ("class", "rg-quantity-conversions") in t[2]:
                skip += 1
            elif t[0] == "end" and t[1] == "ul" and skip:
                skip -= 1
            elif t[0] == "text" and not skip:
                cur.append(t[1])
            elif t[0] == "start" and t[1] == "li" and not skip:
                cur.append(" ")
    return out


ID_RE = re.compile(r"[A-Za-z0-9._-]*\Z")


def oracle(tree: Any, prefix: str, out: str, twin_out: Optional[str], cells: List[Any]) -> Optional[str]:
    toks = parse_html(out)
    if any(t[0] == "other" for t in toks):
        return "output contains a comment / declaration / processing instruction"
    if twin_out is not None and skeleton(toks) != skeleton(parse_html(twin_out)):
        return "element structure differs from the structure for plain alphabetic text"
    texts = td_texts(toks)
    want = [cell_visible(c.value) for c in cells]
    if len(texts) != len(want):
        return f"{len(texts)} td elements for {len(want)} cells"
    for got, w in zip(texts, want):
        if collapse(got) != collapse(w):
            return f"visible text of a cell is {collapse(got)!r}, the recipe says {collapse(w)!r}"
    for t in toks:
        if t[0] != "start":
            continue
        names = [k for k, _ in t[2]]
        if len(set(names)) != len(names):
            return f"duplicate attribute in <{t[1]}>"
        for k, v in t[2]:
            if v is None:
                return f"attribute {k} of <{t[1]}> has no value"
            if k not in ("class", "colspan", "rowspan", "id", "href", "tabindex"):
                return f"unexpected attribute {k!r} in <{t[1]}>"
            if k == "id" and not (v.startswith(prefix) and ID_RE.match(v[len(prefix):])):
                return f"id {v!r} is not the prefix followed by [A-Za-z0-9._-]*"
            if k == "href" and not (v.startswith("#" + prefix) and ID_RE.match(v[len(prefix) + 1:])):
                return f"href {v!r} is not '#' + prefix + [A-Za-z0-9._-]*"
            if k == "class" and not re.fullmatch(r"rg-[a-z-]+( rg-[a-z-]+)*", v):
                return f"class {v!r} is not a list of rg-* names"
            if k in ("colspan", "rowspan", "tabindex") and not re.fullmatch(r"[0-9]+", v):
                return f"{k}={v!r}"
    return None


# ---------------------------------------------------------------- cases

BORDER = {"none": "BNone", "normal": "BNormal", "sub_recipe": "BSub"}
ERR = {KeyError: "KeyError", ZeroDivisionError: "ZeroDivisionError", OverflowError: "OverflowError",
       AssertionError: "AssertionError", ValueError: "ValueError", IndexError: "IndexError"}


def cell_value_term(v: Any) -> str:
    """The node of a cell, without the parts render_cell does not look at (inputs of a step, body of a sub recipe)."""
    import recipe_grid.recipe as R
    dummy = "(Ingredient (@nil part) (@None quantity))"
    if isinstance(v, R.Ingredient):
        return ser.node(v)
    if isinstance(v, R.Step):
        return f"(Step {ser.svs(v.description)} (@nil node))"
    if isinstance(v, R.SubRecipe):
        return f"(SubRecipe {dummy} {coqio.lst([ser.svs(n) for n in v.output_names], 'svs')} {coqio.boolean(v.show_output_names)})"
    sr = v.sub_recipe
    srt = f"(SubRecipe {dummy} {coqio.lst([ser.svs(n) for n in sr.output_names], 'svs')} {coqio.boolean(sr.show_output_names)})"
    return f"(Reference {srt} {coqio.nat(v.output_index)} {ser.amount(v.amount)})"


def jsvs_term(j: List[Any]) -> str:
    parts = [f"PStr {coqio.string(p)}" if isinstance(p, str) else f"PNum {coqio.num(coqio.num_unjson(p))}" for p in j]
    return coqio.lst(parts, "part")


def jamount_term(a: Any) -> str:
    if "q" in a:
        v, u, sp, pr = a["q"]
        return (f"(AQty (mkQ {coqio.num(coqio.num_unjson(v))} {coqio.opt(coqio.string(u) if u is not None else None, 'str')} "
                f"{coqio.string(sp)} {coqio.string(pr)}))")
    v, pc, w, pr = a["p"]
    if v is None:
        return f"(AProp (PropRem {coqio.string(w)} {coqio.string(pr)}))"
    return f"(AProp (PropVal {coqio.num(coqio.num_unjson(v))} {coqio.boolean(bool(pc))} {coqio.string(pr)}))"


def jcell_term(j: Any) -> str:
    """The node of a cell as WRITTEN in the case input (JSON), without the parts render_cell does not look at."""
    dummy = "(Ingredient (@nil part) (@None quantity))"
    if "I" in j:
        q = j["I"][1]
        qt = "(@None quantity)" if q is None else "(Some " + jamount_term(q)[len("(AQty "):-1] + ")"
        return f"(Ingredient {jsvs_term(j['I'][0])} {qt})"
    if "S" in j:
        return f"(Step {jsvs_term(j['S'][0])} (@nil node))"
    if "SR" in j:
        return f"(SubRecipe {dummy} {coqio.lst([jsvs_term(n) for n in j['SR'][1]], 'svs')} {coqio.boolean(j['SR'][2])})"
    sr = j["R"][0]
    srt = f"(SubRecipe {dummy} {coqio.lst([jsvs_term(n) for n in sr['SR'][1]], 'svs')} {coqio.boolean(sr['SR'][2])})"
    return f"(Reference {srt} {coqio.nat(j['R'][1])} {jamount_term(j['R'][2])})"


def jsvs_visible(j: List[Any]) -> str:
    return "".join(p if isinstance(p, str) else fmt_visible(coqio.num_unjson(p)) for p in j)


def jamount_visible(a: Any) -> str:
    if a is None:
        return ""
    if "q" in a:
        v, u, sp, pr = a["q"]
        return fmt_visible(coqio.num_unjson(v)) + ((sp + u) if u is not None else "") + pr + " "
    v, pc, w, pr = a["p"]
    if v is None:
        return w + pr + " "
    val = coqio.num_unjson(v)
    if val == 1.0:
        return ""
    return fmt_visible(val * 100 if pc else val) + pr.replace("*", "\u00d7") + " "


def jcell_visible(j: Any) -> str:
    """The text a reader must see in the cell, from the case input alone."""
    if "I" in j:
        return jamount_visible(j["I"][1]) + jsvs_visible(j["I"][0])
    if "S" in j:
        return jsvs_visible(j["S"][0])
    if "R" in j:
        return jamount_visible(j["R"][2]) + jsvs_visible(j["R"][0]["SR"][1][j["R"][1]])
    return " ".join(jsvs_visible(n) for n in j["SR"][1])


def json_by_object(tree: Any, j: Any, out: Dict[int, Any]) -> None:
    """id(node object) -> the JSON it was built from (drawn nodes only)."""
    out[id(tree)] = j
    if "S" in j:
        for o, k in zip(tree.inputs, j["S"][1]):
            json_by_object(o, k, out)
    elif "SR" in j:
        json_by_object(tree.sub_tree, j["SR"][0], out)


def cells_case(inp: Dict[str, Any]) -> Case:
    from recipe_grid.renderer.html import render_recipe_tree
    from recipe_grid.renderer.recipe_to_table import recipe_tree_to_table
    from recipe_grid.renderer.table import Cell
    tree = ser.node_unjson(inp["tree"])
    prefix = inp["prefix"]
    table = recipe_tree_to_table(tree)
    rows = [[c for c in row if isinstance(c, Cell)] for row in table.cells]
    try:
        out: Any = render_recipe_tree(tree, prefix)
        co = f"(Ok {coqio.string(out)})"
    except tuple(ERR) as e:       # type: ignore[misc]
        out = None
        co = f"(Err {ERR[type(e)]})"
    viol = None
    if out is not None:
        try:
            tw = render_recipe_tree(ser.node_unjson(twin(inp["tree"])), prefix)
        except Exception:
            tw = None
        viol = oracle(tree, prefix, out, tw, [c for r in rows for c in r])
    else:
        viol = f"render_recipe_tree raised {co}"
    # expectations from the case input itself (not from the constructed objects): model input and visible text
    jmap: Dict[int, Any] = {}
    json_by_object(tree, inp["tree"], jmap)
    if out is not None and viol is None:
        texts = td_texts(parse_html(out))
        for got, c in zip(texts, [c for r in rows for c in r]):
            w = jcell_visible(jmap[id(c.value)])
            if collapse(got) != collapse(w):
                viol = f"visible text of a cell is {collapse(got)!r}, the recipe as written says {collapse(w)!r}"
                break
    cell_value_term = lambda v: jcell_term(jmap[id(v)])          # noqa: E731  (shadows the object-based encoder)
    rows_t = coqio.lst([coqio.lst([
        f"(mkHCell {cell_value_term(c.value)} {coqio.n_(c.rows)} {coqio.n_(c.columns)} {BORDER[c.border_left.name]} "
        f"{BORDER[c.border_right.name]} {BORDER[c.border_top.name]} {BORDER[c.border_bottom.name]})" for c in r],
        "hcell") for r in rows], "(list hcell)")
    cin = coqio.pair(cell_value_term(tree), rows_t, coqio.string(prefix))
    blob = prefix + "".join(user_strings(inp["tree"]))
    tags = ["cells"]
    for ch, tg in (("<", "lt"), ("&", "amp"), ('"', "dquote"), ("'", "squote"), ("\t", "tab"), ("\n", "newline"),
                   ("\u2028", "u2028"), ("*", "star")):
        if ch in blob:
            tags.append("cells:" + tg)
    if out is not None and "rg-quantity-conversions" in out:
        tags.append("cells:alt-unit-list")
    if re.search(r"\{'(int|float)': '(0|0x0\.0p\+0)'\}|\{'frac': \['0'", str(inp["tree"])):
        tags.append("cells:zero-in-text")
    return Case(input={"suite": "cells", **inp}, coq_in=cin, coq_out=co, impl=out, violation=viol,
                nontrivial=bool(re.search(r"[^A-Za-z0-9 ]", blob)), tags=tags)


def tok_case(html: str) -> Case:
    toks = parse_html(html)

    def term(t) -> str:
        if t[0] == "start":
            attrs = coqio.lst([coqio.pair(coqio.string(k), coqio.string(v if v is not None else "")) for k, v in t[2]],
                              "(str * str)")
            return f"(StartTag {coqio.string(t[1])} {attrs} {coqio.boolean(t[3])})"
        if t[0] == "end":
            return f"(EndTag {coqio.string(t[1])})"
        if t[0] == "text":
            return f"(Text {coqio.string(t[1])})"
        return "TError"
    return Case(input={"suite": "tok", "html": html}, coq_in=coqio.string(html),
                coq_out=coqio.lst([term(t) for t in toks], "token"), impl=[list(t) for t in toks][:50],
                nontrivial=True, tags=["tok"])


def escape_case(kind: str, x: str) -> Case:
    import html as H
    from xml.sax.saxutils import quoteattr
    if kind == "markup":
        import markupsafe
        out = str(markupsafe.escape(x))
    else:
        out = quoteattr(x) if kind == "quoteattr" else H.escape(x)
    viol = None
    # oracle: a parser reads the text / attribute back unchanged
    if kind == "quoteattr":
        toks = parse_html("<a href=" + out + ">")
        if toks != [("start", "a", [("href", x)], False)] and "\r" not in x:
            viol = f"quoteattr({x!r}) = {out!r} does not read back as one attribute with that value: {toks!r}"
    else:
        toks = parse_html("<p>" + out + "</p>")
        want = [("start", "p", [], False)] + ([("text", x)] if x else []) + [("end", "p")]
        if toks != want and "\r" not in x:
            viol = f"html.escape({x!r}) = {out!r} does not read back as that text: {toks!r}"
    return Case(input={"suite": kind, "text": x}, coq_in=coqio.string(x), coq_out=coqio.string(out), impl=out,
                violation=viol, nontrivial=bool(re.search(r"[^A-Za-z0-9 ]", x)), tags=[kind])


def tfun_case(tag: str, body: Optional[str], attrs: List[Tuple[str, str]]) -> Case:
    from recipe_grid.renderer.html import t
    out = t(tag, body, **dict(attrs))
    cin = coqio.pair(coqio.string(tag), coqio.opt(coqio.string(body) if body is not None else None, "str"),
                     coqio.lst([coqio.pair(coqio.string(k), coqio.string(v)) for k, v in attrs], "(str * str)"))
    return Case(input={"suite": "tfun", "tag": tag, "body": body, "attrs": [list(a) for a in attrs]}, coq_in=cin,
                coq_out=coqio.string(out), impl=out, nontrivial=True,
                tags=["tfun", "tfun:newline" if body and "\n" in body else "tfun:plain"])


# ---------------------------------------------------------------- suite: sitesinks (titles, breadcrumbs, list entries, hrefs)

SITE_TITLES = ["Cre\u0300me bru\u0302le\u0301e", "\u212bngstro\u0308m", "5 \u2126 resistor soup", "\u212aelvin 0",
               "\uf900 \ufa10 ideographs", "Tikka & Masala", "It's \"good\"", "x > y", "a < b", "R&D \"q\" 'single'", "50 # hash", "semi; colon=",
               "back\\slash", "日本のカレー", "Crème brûlée",
               "\U0001F35D pasta", "&amp; entity", "&lt;b&gt;", "</title><script>x</script>".replace("<", "＜").replace(">", "＞"),
               "&amp;lt;i&amp;gt; literal", "AT&amp;amp;T", "&amp;#65; ref",      # entity-LIKE text: must be decoded exactly once
               "a  two  spaces", "tab\tin", "quote\" onmouseover=\"x", "apos' onmouseover='x", "Plain", "Zebra", "apple"]
README_TITLES = ["Thali serves \u096a", "\u9903\u5b50 for \uff12", "Mezze for \u0663", "{{ jinja }}", "{% block %} 100%", "{# comment #}", "&quot;quoted&quot; &#60;i&#62;"]   # source text
SITE_DIRS = ["pasta", "Indian Mains", "sides&dips", "it's", 'say "hi"', "q?r", "a#b dir", "100%", "50%25 off",
             "日本料理", "Crème brûlée", "a+b", "semi;colon", "eq=als", "<b>bold<", "back\\slash",
             "{{x}}", "a&amp;b", "x>y", "'single'", "tab\tdir", "Kelvin", "emoji\U0001F35D", "&#60;"]
SITE_STEMS = ["spag bol", "q?r", "a#b", "100%", "it's", 'quo"te', "a&b", "日本", "a+b", "x;y", "<i>it<", "a>b",
              "{{y}}", "&lt;", "e=mc2", "'s'", "back\\sl", "x.html", "%41", "plain"]


def _tok(prefix: str, i: int) -> str:
    return prefix + "q" + chr(97 + i // 26) + chr(97 + i % 26)


def gen_sink_site(rng: random.Random) -> Dict[str, Any]:
    """A small valid site; every directory name, file stem and title adversarial and distinct."""
    from ..gen import sitegen as SG
    titles = rng.sample(SITE_TITLES, len(SITE_TITLES))
    readme_titles = rng.sample(README_TITLES, len(README_TITLES))
    dirs = rng.sample(SITE_DIRS, 6)
    stems = rng.sample(SITE_STEMS, 8)

    def recipe(stem: str, title: str) -> Any:
        serv = rng.choice((1, 2))
        ing = md_quote(rng.choice(MD_STRINGS) + " flour")
        return SG.F(stem + ".md", text=f"# {title} for {serv}\n\nSome prose.\n\n    {serv * 100}g {ing}\n    2 eggs\n")

    def directory(name: str, with_readme: bool, nrec: int, sub: Any = None) -> Any:
        ch = []
        if with_readme:
            rt = readme_titles.pop() if (readme_titles and rng.random() < 0.4) else titles.pop()
            ch.append(SG.F("README.md", text=f"# {rt}\n\nA description with *emphasis*.\n"))
        for _ in range(nrec):
            ch.append(recipe(stems.pop(), titles.pop()))
        if sub is not None:
            ch.append(sub)
        rng.shuffle(ch)
        return SG.D(name, ch)

    # every directory has a README: listings are sorted by title, and the twin keeps the titles' order
    sub = directory(dirs.pop(), True, rng.choice((1, 2)))
    top = [directory(dirs.pop(), True, rng.choice((1, 2)), sub), directory(dirs.pop(), True, 1)]
    if rng.random() < 0.5:
        top.append(recipe(stems.pop(), titles.pop()))
    src = SG.D("src", [SG.F("README.md", text=f"# {titles.pop()}\n\nWelcome to the site.\n")] + top)
    return {"M": 2, "input": ["src"], "profile": "valid", "base": SG.D("", [src])}


def _site_strings(site: Dict[str, Any]):
    """(titles, README-less directories, directory names, file stems) in the site."""
    titles, bare, dirs, stems = [], [], [], []

    def go(n, top=False):
        if n["k"] == "d":
            if not top:
                dirs.append(n["name"])
                if not any(c["k"] == "f" and c["name"] == "README.md" for c in n["ch"]):
                    bare.append(n["name"])
            for c in n["ch"]:
                go(c)
        elif n["name"].endswith(".md"):
            m = re.match(r"# (.*?)( for [0-9]+)?\n", n["text"])
            titles.append(_html.unescape(m.group(1)))            # type: ignore[union-attr]   (the title Markdown yields)
            if n["name"] != "README.md":
                stems.append(n["name"][:-3])
    go(site["base"]["ch"][0], top=True)
    return titles, bare, dirs, stems


def twin_site(site: Dict[str, Any]):
    """The same site with every title / directory name / file stem replaced by an alphabetic token; tokens are
    assigned in the sort order of the originals so that title-sorted listings keep their order."""
    import copy
    titles, bare, dirs, stems = _site_strings(site)
    tmap = {x: _tok("T", i) for i, x in enumerate(sorted(set(titles)))}
    dmap = {x: _tok("D", i) for i, x in enumerate(sorted(set(dirs)))}
    fmap = {x: _tok("F", i) for i, x in enumerate(sorted(set(stems)))}
    tw = copy.deepcopy(site)

    def go(n, top=False):
        if n["k"] == "d":
            for c in n["ch"]:
                go(c)
            if not top:
                n["name"] = dmap[n["name"]]
        elif n["name"].endswith(".md"):
            m = re.match(r"# (.*?)( for [0-9]+)?\n", n["text"])
            n["text"] = "# " + tmap[_html.unescape(m.group(1))] + (m.group(2) or "") + "\n" + n["text"][m.end():]   # type: ignore[union-attr]
            if n["name"] != "README.md":
                n["name"] = fmap[n["name"][:-3]] + ".md"
    go(tw["base"]["ch"][0], top=True)
    return tw, tmap, dmap, fmap, bare


def G_find_source(site: Dict[str, Any], page: str) -> Optional[str]:
    """Markdown source of the recipe behind a generated recipe page (servesN/<dirs>/<stem>.html)."""
    parts = page.split("/")[1:]
    node = site["base"]["ch"][0]
    for comp in parts[:-1]:
        node = next((c for c in node["ch"] if c["k"] == "d" and c["name"] == comp), None)
        if node is None:
            return None
    stem = parts[-1][:-5]
    f = next((c for c in node["ch"] if c["k"] == "f" and c["name"] == stem + ".md"), None)
    return f["text"] if f else None


SINK_RE = re.compile(r"<title>(.*?)</title>|<h1(?: class=\"logo\")?>(.*?)</h1>|<li><a href=\"[^\"]*\">(.*?)</a></li>", re.S)


def raw_sinks(page: str) -> List[str]:
    return [next(g for g in m.groups() if g is not None) for m in SINK_RE.finditer(page)]


def sitesinks_case(inp: Dict[str, Any]) -> Case:
    import html as H
    from urllib.parse import unquote
    from .. import site_common as SC
    from recipe_grid.static_site.recipe_directory import dirname_to_title
    site = inp["site"]
    tw, tmap, dmap, fmap, bare = twin_site(site)
    obs, obs2 = SC.run_site(site), SC.run_site(tw)
    viol: Optional[str] = None
    expected: List[str] = []
    emitted: List[str] = []
    inv_text = {v: k for k, v in tmap.items()}
    for d in bare:                       # a directory without README is listed under dirname_to_title(name)
        inv_text[dirname_to_title(dmap[d])] = dirname_to_title(d)
    inv_path = {v: k for k, v in dmap.items()}
    inv_path.update({v + ".html": k + ".html" for k, v in fmap.items()})
    tok_re = re.compile("|".join(sorted(map(re.escape, inv_text), key=len, reverse=True)) or "(?!x)x")

    def untwin_text(x: str) -> str:
        return tok_re.sub(lambda m: inv_text[m.group(0)], x)

    def untwin_path(x: str) -> str:
        return "/".join(inv_path.get(c, c) for c in x.split("/"))

    if "error" in obs or "error" in obs2:
        viol = f"site generation failed: {obs.get('error')} / twin {obs2.get('error')}: {obs.get('message')}"
    else:
        pages = sorted(p for p in obs["files"] if p.endswith(".html"))
        pages2 = {untwin_path(p): p for p in obs2["files"] if p.endswith(".html")}
        if sorted(pages2) != pages:
            viol = f"pages differ from the pages of the alphabetic twin site: {sorted(set(pages) ^ set(pages2))[:4]}"
        for p in pages:
            if viol:
                break
            a = parse_html(obs["_raw"][p].decode("utf-8"))
            b = parse_html(obs2["_raw"][pages2[p]].decode("utf-8"))
            if skeleton(a) != skeleton(b):
                viol = f"{p}: element structure differs from the structure of the alphabetic twin site"
                break
            for x, y in zip(a, b):
                if x[0] == "text" and x[1] != untwin_text(y[1]):
                    viol = f"{p}: text {x[1]!r} is not the original string(s) {untwin_text(y[1])!r}"
                elif x[0] == "start":
                    names = [k for k, _ in x[2]]
                    if len(set(names)) != len(names):
                        viol = f"{p}: duplicate attribute in <{x[1]}>"
                    for (k, v), (_, w) in zip(x[2], y[2]):
                        if v is None or w is None:
                            if v != w:
                                viol = f"{p}: attribute {k} without value"
                        elif k in ("href", "src"):
                            if unquote(v) != untwin_path(unquote(w)):
                                viol = f"{p}: {k}={v!r} is not the link {untwin_path(unquote(w))!r}"
                        elif v != untwin_text(w):
                            viol = f"{p}: attribute {k}={v!r}, expected {untwin_text(w)!r}"
                if viol:
                    break
            is_recipe = not p.endswith("index.html")
            if is_recipe and not viol:
                src = G_find_source(site, p)
                mi = re.search(r'g "((?:[^"\\]|\\.)*)"', src or "")
                if mi:
                    ing = re.sub(r"\\(.)", r"\1", mi.group(1))
                    if ing not in "".join(x[1] for x in a if x[0] == "text"):
                        viol = f"{p}: the ingredient {ing!r} is not in the text of the page"
            ra, rb = raw_sinks(obs["_raw"][p].decode("utf-8")), raw_sinks(obs2["_raw"][pages2[p]].decode("utf-8"))
            if is_recipe:
                ra, rb = ra[:1], rb[:1]                  # only <title>: the body of a recipe page is not a Jinja sink
            if len(ra) != len(rb) and not viol:
                viol = f"{p}: {len(ra)} interpolated texts, twin has {len(rb)}"
            for x, y in zip(ra, rb):
                expected.append(untwin_text(H.unescape(y)))
                emitted.append(x)
    tags = ["sitesinks"]
    blob = " ".join(_site_strings(site)[0] + _site_strings(site)[2] + _site_strings(site)[3])
    for ch, tg in (("<", "lt"), ("&", "amp"), ('"', "dquote"), ("'", "squote"), ("#", "hash"), ("%", "percent"), ("{", "brace")):
        if ch in blob:
            tags.append("sitesinks:" + tg)
    return Case(input={"suite": "sitesinks", "site": site},
                coq_in=coqio.lst([coqio.string(x) for x in expected], "str"),
                coq_out=coqio.lst([coqio.string(x) for x in emitted], "str"),
                impl={"texts": len(emitted), "pages": len(obs.get("files", []))}, violation=viol,
                nontrivial=True, tags=tags)


# ---------------------------------------------------------------- recipes rendered through compile_markdown(...).render

MD_STRINGS = ["back\\slash", "a\\\\b", "x\\1y", "\\t", "dir\\temp\\new", "\\g<0>", "\\", "q\"r", "it's", "<b>&amp;", "a&b",
              "100%", "{x}", "tab\there", "é\\n", "plain", "$1", "\\\\server\\share"]


def md_quote(x: str) -> str:
    return '"' + x.replace("\\", "\\\\").replace('"', '\\"') + '"'


def md_heading(rng: random.Random) -> str:
    r = rng.random()
    if r < 0.25:
        return rng.choice(EMPTY_HEADINGS)
    if r < 0.5:
        return "# " + rng.choice(NON_NFC_TITLES)
    return "# Title for 2"


def gen_md_doc(rng: random.Random) -> str:
    """A Markdown recipe whose ingredient, step and output names and free-form units hold backslashes etc."""
    pick = lambda: md_quote(rng.choice(MD_STRINGS) + rng.choice(["", " ", "x"]) + rng.choice(MD_STRINGS))
    out1, out2 = pick(), pick()
    lines = [f"{out1} := {pick()}({pick()}, {{2 {md_quote(rng.choice(MD_STRINGS))}}} {pick()})",
             f"{out2}, {pick()} := {pick()}(3 {pick()})",
             f"{pick()}(1/2 of the {out1}, {out2}, {pick()})",
             f"{pick()}(rest of the {out1}, 100g {pick()})"]
    return md_heading(rng) + "\n\nProse with a back\\\\slash.\n\n```recipe\n" + "\n".join(lines) + "\n```\n"


def md_case(doc: str, scale: Any = 1) -> Optional[Case]:
    """The page of compile_markdown(doc).render(scale): tokenizer spec vs html.parser, and the visible text of every
    td against the strings of the compiled (scaled) recipe."""
    from recipe_grid.markdown import compile_markdown
    from recipe_grid.renderer.recipe_to_table import recipe_tree_to_table
    from recipe_grid.renderer.table import Cell
    try:
        m = compile_markdown(doc)
    except Exception:
        return None
    viol = None
    try:
        page = m.render(scale)
    except Exception as e:
        page = ""
        viol = f"MarkdownRecipe.render raised {type(e).__name__}: {e}"
    c = tok_case(page)
    c.input = {"suite": "tok", "doc": doc, "scale": coqio.num_json(scale)}
    c.tags = ["tok", "tok:markdown-page"]
    if viol is None:
        want = []
        for rs in m.recipes:
            for r in rs:
                for tree in r.scale(scale).recipe_trees:
                    for row in recipe_tree_to_table(tree).cells:
                        want += [cell_visible(x.value) for x in row if isinstance(x, Cell)]
        toks = parse_html(page)
        heading = doc.split("\n", 1)[0]
        h1 = _element_text(toks, "h1")
        if PLACEHOLDER_RE.search("".join(x[1] for x in toks if x[0] == "text")):
            viol = "an internal placeholder (%XXXX...%) is visible in the rendered document"
        elif not any(x[0] == "start" and x[1] == "header" for x in toks):
            viol = "the <header> wrapper of the title is missing"
        elif heading in EMPTY_HEADINGS and ((h1 or "").strip() != "" or m.title != ""):
            viol = f"empty heading {heading!r}: title {m.title!r}, <h1> reads {h1!r}"
        elif heading[2:] in NON_NFC_TITLES and (h1 != heading[2:] or m.title != heading[2:]):
            viol = f"heading {heading[2:]!r}: title {m.title!r}, <h1> reads {h1!r}"
        got = td_texts(toks)
        if viol is None and len(got) != len(want):
            viol = f"{len(got)} td elements for {len(want)} cells"
        for g, w in zip(got, want):
            if collapse(g) != collapse(w) and viol is None:
                viol = f"visible text of a cell is {collapse(g)!r}, the recipe says {collapse(w)!r}"
    c.violation = viol
    return c


# ---------------------------------------------------------------- standalone pages (generate_standalone_page)

# titles that are NOT in Unicode normalisation form C: decomposed accents, ANGSTROM / OHM / KELVIN SIGN, CJK
# compatibility ideographs (must reach the page code point by code point)
NON_NFC_TITLES = ["Cre\u0300me bru\u0302le\u0301e", "\u212bngstro\u0308m", "5 \u2126 resistor soup", "\u212aelvin 0", "\uf900 \ufa10 ideographs"]
TITLE_BASES = NON_NFC_TITLES + ["Mac & cheese", "It's \"good\"", "x > y", "a < b", "R&D \"q\" 'single'", "Tikka &amp; Masala", "&lt;b&gt;bold",
               "Crème brûlée", "日本のカレー", "back\\\\slash", "Plain", "Mezze", "Thali", "餃子", "&amp;amp; twice"]
# (suffix as written, is it a serving count the documentation recognises?)  Only ASCII digits are a count.
TITLE_SUFFIXES = [("", False), (" for 2", True), (" serves 3", True), (" for ٣", False), (" serves ४", False),
                  (" for ２", False), (" to serve ६", False), (" makes ١٢", False)]


EMPTY_HEADINGS = ["#", "# ", "# &#32;", "# &nbsp;", "#  #"]
PLACEHOLDER_RE = re.compile(r"%[A-Z]{32}%")


def gen_standalone(rng: random.Random) -> Dict[str, Any]:
    if rng.random() < 0.12:
        # an EMPTY title: the heading is captured as the title '' (header and <title> present, both empty)
        h = rng.choice(EMPTY_HEADINGS)
        ing = md_quote(rng.choice(MD_STRINGS) + " flour")
        scale = rng.choice([None, 2, Fraction(1, 2)])
        return {"doc": f"{h}\n\nSome prose.\n\n    100g {ing}\n    2 eggs\n", "base": "", "suffix": "", "counted": False,
                "heading": h, "scale": coqio.num_json(scale) if scale is not None else None}
    base = rng.choice(TITLE_BASES)
    suffix, counted = rng.choice(TITLE_SUFFIXES)
    ing = md_quote(rng.choice(MD_STRINGS) + " flour")
    doc = f"# {base}{suffix}\n\nSome prose.\n\n    100g {ing}\n    2 eggs\n"
    scale = rng.choice([None, None, 2, Fraction(1, 2)])
    return {"doc": doc, "base": base, "suffix": suffix, "counted": counted,
            "scale": coqio.num_json(scale) if scale is not None else None}


def _standalone(doc: str, scale: Any) -> str:
    import shutil
    import tempfile
    from pathlib import Path
    from recipe_grid.static_site.standalone_page import generate_standalone_page
    d = tempfile.mkdtemp(prefix="rgv_c10_")
    try:
        f = Path(d) / "recipe.md"
        f.write_text(doc, encoding="utf-8")
        return generate_standalone_page(f, scale=scale)
    finally:
        shutil.rmtree(d, ignore_errors=True)


def _element_text(tokens, tag: str) -> Optional[str]:
    out: Optional[List[str]] = None
    depth = 0
    for tk in tokens:
        if tk[0] == "start" and tk[1] == tag and out is None:
            out, depth = [], 1
        elif out is not None and depth > 0:
            if tk[0] == "start" and tk[1] == tag:
                depth += 1
            elif tk[0] == "end" and tk[1] == tag:
                depth -= 1
            elif tk[0] == "text":
                out.append(tk[1])
    return None if out is None else "".join(out)


def standalone_case(inp: Dict[str, Any]) -> Case:
    """The <title> and <h1> of the standalone page: decoded text = the title as written (Markdown-decoded), element
    structure = the structure for a plain alphabetic title; the raw <title> text against the markupsafe model."""
    st = inp["standalone"]
    scale = coqio.num_unjson(st["scale"]) if st["scale"] is not None else None
    written = _html.unescape(st["base"].replace("\\\\", "\\")) + st["suffix"]
    want_title = _html.unescape(st["base"].replace("\\\\", "\\")) if st["counted"] else written
    viol = None
    raw_title = ""
    try:
        page = _standalone(st["doc"], scale)
        if st.get("heading") is not None:
            twin_doc = "# Plain words" + st["doc"][len(st["heading"]):]
        else:
            twin_doc = st["doc"].replace("# " + st["base"] + st["suffix"], "# Plain" + (st["suffix"] if st["counted"] else " words"), 1)
        twin_page = _standalone(twin_doc, scale)
    except Exception as e:
        page = twin_page = ""
        viol = f"generate_standalone_page raised {type(e).__name__}: {e}"
    if viol is None:
        a, b = parse_html(page), parse_html(twin_page)
        mt = re.search(r"<title>(.*?)</title>", page, re.S)
        raw_title = mt.group(1) if mt else ""
        tt, h1 = _element_text(a, "title"), _element_text(a, "h1")
        if skeleton(a) != skeleton(b):
            viol = "element structure of the standalone page differs from the structure for a plain alphabetic title"
        elif tt != want_title:
            viol = f"<title> reads {tt!r}, the recipe's title is {want_title!r}"
        elif PLACEHOLDER_RE.search("".join(x[1] for x in a if x[0] == "text")):
            viol = "an internal placeholder (%XXXX...%) is visible in the page"
        elif st.get("heading") is not None and (h1 is None or h1.strip() != ""):
            viol = f"<h1> of a document with an empty heading reads {h1!r}"
        elif st.get("heading") is None and not st["counted"] and h1 != written:
            viol = f"<h1> reads {h1!r}, the heading as written is {written!r}"
        elif st["counted"] and (h1 is None or not h1.startswith(want_title)):
            viol = f"<h1> reads {h1!r}, it should start with the title {want_title!r}"
    return Case(input={"suite": "sitesinks", "standalone": st},
                coq_in=coqio.lst([coqio.string(want_title)], "str"), coq_out=coqio.lst([coqio.string(raw_title)], "str"),
                impl={"title": raw_title}, violation=viol, nontrivial=True,
                tags=["sitesinks:standalone", "sitesinks:standalone-count" if st["counted"] else
                      "sitesinks:standalone-nonascii-digits" if st["suffix"] else
                      "sitesinks:standalone-empty-title" if st.get("heading") is not None else
                      "sitesinks:standalone-non-nfc" if st["base"] in NON_NFC_TITLES else "sitesinks:standalone-plain"])


def _suites_empty() -> Dict[str, Suite]:
    imp = ["From RG Require Import Gen.GenUnits Model.Recipe Model.Table Model.Units Model.Html Model.HtmlTok."]
    return {
        "cells": Suite("cells", imp, "node * list (list hcell) * str", "res str", "check_render_tree",
                       show="(fun i => let '(a, b, c) := i in render_recipe_tree_with a b c)", shard=20),
        "tok": Suite("tok", imp, "str", "list token", "check_tokenize", show="tokenize", shard=12),
        "quoteattr": Suite("quoteattr", imp, "str", "str", "check_quoteattr", show="quoteattr", shard=400),
        "escape": Suite("escape", imp, "str", "str", "check_html_escape", show="html_escape", shard=400),
        "markup": Suite("markup", imp, "str", "str", "check_markup_escape", show="markup_escape", shard=400),
        "sitesinks": Suite("sitesinks", imp, "list str", "list str", "check_markup_list",
                           show="(map markup_escape)", shard=6),
        "tfun": Suite("tfun", imp, "str * option str * list (str * str)", "str", "check_t",
                      show="(fun i => let '(a, b, c) := i in t a b c)", shard=200),
    }


def suites(tier: str, seed: int) -> List[Suite]:
    S = _suites_empty()
    if tier == "replay":
        return list(S.values())
    rng = random.Random(seed * 15485863 + 10)
    n = 260 if tier == "quick" else 2000
    skels = G.random_skeletons(rng, n)
    skels = [s for s in skels if G.n_leaves(s) <= (30 if tier == "quick" else 70)]
    seen = set()
    for s in skels:
        inp = {"tree": build_json(rng, s), "prefix": rng.choice(PREFIXES[:3] * 3 + PREFIXES)}
        c = cells_case(inp)
        if c.key() in seen:
            continue
        seen.add(c.key())
        S["cells"].cases.append(c)
        if isinstance(c.impl, str) and len(c.impl) < 12000:
            S["tok"].cases.append(tok_case(c.impl))
    # hand-made
    for x in ["", "plain", "a<b", "a&b", "\"", "'", "\"'", "a\"b'c&<>", "\n", "\r", "\t", "a\nb", "&amp;", "&#10;",
              " ", "</td><script>", "' onmouseover='x", "\" onmouseover=\"x", "\\", "{{x}}", "{% x %}", "%", "#"]:
        for k in ("quoteattr", "escape", "markup"):
            S[k].cases.append(escape_case(k, x))
    for _ in range(600 if tier == "quick" else 10000):
        x = rand_text(rng, 0, 10)
        for k in ("quoteattr", "escape", "markup"):
            S[k].cases.append(escape_case(k, x))
    bodies = [None, "", "x", "a\nb", "a\n\nb", "a\n  \nb\n", " \n ", "a b\nc", "a\rb\nc\r\nd", "a\x0bb\nc", "\n",
              "x\n \ny", "a\x85b\nc \t"]
    names = ["class_", "id", "data__foo", "a__b__c_", "x___", "__", "_", "href", "a_b"]
    for _ in range(300 if tier == "quick" else 5000):
        body = rng.choice(bodies) if rng.random() < 0.5 else \
            "".join(rng.choice(ADV + ["\n", "\n", "\r", " ", "\x0c", "\x1c"]) for _ in range(rng.randrange(0, 12)))
        ks = rng.sample(names, rng.randrange(0, 4))
        S["tfun"].cases.append(tfun_case(rng.choice(["td", "span", "a", "x-y"]), body, [(k, rand_text(rng, 0, 6)) for k in ks]))
    for _ in range(24 if tier == "quick" else 120):
        S["sitesinks"].cases.append(sitesinks_case({"site": gen_sink_site(rng)}))
    for _ in range(70 if tier == "quick" else 700):
        S["sitesinks"].cases.append(standalone_case({"standalone": gen_standalone(rng)}))
    for _ in range(60 if tier == "quick" else 600):
        mc = md_case(gen_md_doc(rng), rng.choice([1, 2, Fraction(1, 2)]))
        if mc is not None:
            S["tok"].cases.append(mc)
    for su in S.values():
        seen2 = set()
        uniq = []
        for c in su.cases:
            if c.key() in seen2:
                continue
            seen2.add(c.key())
            uniq.append(c)
        su.cases = uniq
    return list(S.values())


def replay(inp: Any) -> Case:
    su = inp.get("suite")
    if su == "cells":
        return cells_case({"tree": inp["tree"], "prefix": inp["prefix"]})
    if su == "tok" and "doc" in inp:
        mc = md_case(inp["doc"], coqio.num_unjson(inp["scale"]))
        if mc is None:
            raise ValueError("document does not compile")
        return mc
    if su == "tok":
        return tok_case(inp["html"])
    if su in ("quoteattr", "escape", "markup"):
        return escape_case(su, inp["text"])
    if su == "sitesinks" and "standalone" in inp:
        return standalone_case({"standalone": inp["standalone"]})
    if su == "sitesinks":
        return sitesinks_case({"site": inp["site"]})
    if su == "tfun":
        return tfun_case(inp["tag"], inp["body"], [tuple(a) for a in inp["attrs"]])
    raise ValueError(inp)


def known_match(finding: Any, case: Case) -> bool:
    return False
