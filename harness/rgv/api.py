"""Contract between the driver (run.py) and the per-property modules rgv/props/Cxx.py.

A property module defines:

  ID            "C11"
  PROPS_FILE    "Props/C11.v"        Coq file holding only the property theorems
  THEOREMS      {name: "full" | "partial" | "refuted" | "example"}   every Theorem/Example in PROPS_FILE
  GEN_DEPS      ["GenConsts"]        Gen modules whose pins matter for this property
  ALLOWED_AXIOMS  []                 axioms (stdlib only) the theorems may depend on
  TRUSTED       [..strings..]        trusted-base lines for the evidence
  RULE          str                  how cases are generated / what makes one non-trivial
  def suites(tier, seed) -> list[Suite]        correspondence suites, implementation already run
  def replay(input) -> Case                    rebuild a case from its JSON input (runs the implementation + oracle)
  def known_match(finding, case) -> bool       does this violating case fall under the listed known finding?
  (optional) def search(seed, budget_s) -> list[Case]   deeper hunt for a failing input when something is broken
"""
from __future__ import annotations

import json
from dataclasses import dataclass, field
from typing import Any, List, Optional, Sequence


@dataclass
class Case:
    input: Any                       # JSON-able, enough to replay
    coq_in: str                      # Gallina term of the suite's input type
    coq_out: str                     # implementation's canonicalised output as a Gallina term
    impl: Any = None                 # JSON-able rendering of the implementation's output
    violation: Optional[str] = None  # oracle verdict on the IMPLEMENTATION (None = property holds on this input)
    nontrivial: bool = True
    tags: Sequence[str] = ()         # for the distribution histogram
    suite: str = ""

    def key(self) -> str:
        return json.dumps(self.input, sort_keys=True, default=str)


@dataclass
class Suite:
    name: str
    imports: List[str]               # e.g. ["From RG Require Import Model.NumFmt."]
    in_ty: str
    out_ty: str
    check: str                       # Gallina term : in_ty -> out_ty -> bool  (model agrees with implementation)
    cases: List[Case] = field(default_factory=list)
    show: Optional[str] = None       # Gallina function in_ty -> _ printing what the model computes (replay)
    shard: int = 400
