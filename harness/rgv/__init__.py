import os


def repo_root() -> str:
    """The recipe_grid checkout under test (default /repo)."""
    return os.environ.get("RGV_REPO", "/repo")
