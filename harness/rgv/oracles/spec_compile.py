"""Independent, pointer-based transcription of what the language reference prescribes
(DESIGN.md Appendix C): names resolve to *definitions* (shared by identity), folding
grafts the definition's body at the single use site found by identity, and only at the
end are references expanded into by-value `recipe_grid.recipe` objects.

Used as the C01 search oracle (compared with what `compile` really returned) and for the
C05 conservation oracle.  Works on the abstract program of rgv.gen.programs.
"""
from __future__ import annotations

from typing import Any, Dict, List, Optional, Tuple

from .. import coqio as c


class SpecError(Exception):
    def __init__(self, kind: str, block: int, off: int):
        self.kind, self.block, self.off = kind, block, off


class SIng:
    def __init__(self, name, qty): self.name, self.qty = name, qty
class SStep:
    def __init__(self, name, ins): self.name, self.ins = name, ins
class SRef:
    def __init__(self, d, idx, amount, block): self.d, self.idx, self.amount, self.block = d, idx, amount, block
class SSub:
    def __init__(self, body, names, show): self.body, self.names, self.show = body, names, show
class Def:
    def __init__(self, sub, block, unwrap): self.sub, self.block, self.unwrap, self.folded = sub, block, unwrap, False


def _svs(parts):
    from recipe_grid.scaled_value_string import ScaledValueString as SVS
    return SVS([p if isinstance(p, str) else c.num_unjson(p) for p in parts])


def _amount(a):
    import recipe_grid.recipe as R
    if a is None:
        return R.Proportion(1.0)
    if "q" in a:
        v, u, sp, prep = a["q"]
        return R.Quantity(c.num_unjson(v), u, sp, prep)
    v, pc, w, prep = a["p"]
    if v is None:
        return R.Proportion(None, None, w, prep)
    return R.Proportion(c.num_unjson(v), pc, None, prep)


def _key(svs):
    return svs.strip().lower()


def resolve(program: List[List[Any]]):
    import recipe_grid.recipe as R
    keys: Dict[Any, Tuple[Def, int]] = {}      # insertion ordered
    uses: Dict[Any, List[SRef]] = {}
    blocks: List[List[Any]] = []               # entries: Def (a definition root) or a plain tree

    def expr(e, b):
        if "ref" in e:
            name = _svs(e["ref"])
            k = _key(name)
            if k in keys:
                d, idx = keys[k]
                r = SRef(d, idx, _amount(e["amt"]), b)
                uses[k].append(r)
                return r
            if e["amt"] is not None and "p" in e["amt"]:
                raise SpecError("ProportionGiven", b, e["off"])
            return SIng(name, _amount(e["amt"]) if e["amt"] is not None else None)
        return SStep(_svs(e["step"]), [expr(i, b) for i in e["ins"]])

    def infer_name(t):
        while isinstance(t, SStep) and len(t.ins) == 1:
            t = t.ins[0]
        return t.name if isinstance(t, SIng) else None

    for b, stmts in enumerate(program):
        trees: List[Any] = []
        for s in stmts:
            tree = expr(s["expr"], b)
            names = [_svs(o) for o in s["outs"]]
            inferred = False
            if not names:
                n = infer_name(tree)
                if n is not None:
                    names, inferred = [n], True
            if names:
                d = Def(SSub(tree, names, not inferred), b, not s["named"])
                for i, n in enumerate(names):
                    k = _key(n)
                    if k in keys:
                        raise SpecError("NameRedefined", b, s["out_offs"][i])
                    keys[k] = (d, i)
                    uses[k] = []
                trees.append(d)
            else:
                trees.append(tree)
        blocks.append(trees)
    return keys, uses, blocks


def _infer_qty(t):
    if isinstance(t, SIng):
        return t.qty
    if isinstance(t, SStep) and len(t.ins) == 1:
        return _infer_qty(t.ins[0])
    if isinstance(t, SSub) and len(t.names) == 1:
        return _infer_qty(t.body)
    return None


def _graft(t, use, new):
    """Replace the node object `use` (by identity) inside t."""
    if t is use:
        return new, True
    if isinstance(t, SStep):
        for i, x in enumerate(t.ins):
            y, hit = _graft(x, use, new)
            if hit:
                t.ins[i] = y
                return t, True
        return t, False
    if isinstance(t, SSub):
        y, hit = _graft(t.body, use, new)
        if hit:
            t.body = y
        return t, hit
    return t, False


def fold(keys, uses, blocks, fold_enabled=True):
    import recipe_grid.recipe as R
    if not fold_enabled:
        return
    for k, (d, idx) in keys.items():
        if d.folded or len(d.sub.names) != 1 or len(uses[k]) != 1:
            continue
        u = uses[k][0]
        if u.block != d.block:
            continue
        a = u.amount
        if isinstance(a, R.Proportion):
            ok = a.value is None or a.value == 1.0
        else:
            iq = _infer_qty(d.sub)
            ok = iq is not None and a.has_equal_value_to(iq)
        if not ok:
            continue
        new = d.sub.body if d.unwrap else d.sub
        # find the use by identity in any live tree
        done = False
        for trees in blocks:
            for i, t in enumerate(trees):
                root = t.sub if isinstance(t, Def) else t
                if root is u:
                    trees[i] = new
                    done = True
                else:
                    _, done = _graft(root, u, new)
                if done:
                    break
            if done:
                break
        assert done, "use site not found"
        blocks[d.block] = [t for t in blocks[d.block] if t is not d]
        d.folded = True


def embed(blocks):
    import recipe_grid.recipe as R
    memo: Dict[int, Any] = {}

    def node(t):
        if isinstance(t, SIng):
            return R.Ingredient(t.name, t.qty)
        if isinstance(t, SStep):
            return R.Step(t.name, tuple(node(i) for i in t.ins))
        if isinstance(t, SRef):
            return R.Reference(node(t.d.sub), t.idx, t.amount)
        if isinstance(t, SSub):
            return R.SubRecipe(node(t.body), tuple(t.names), t.show)
        if isinstance(t, Def):
            return node(t.sub)
        raise TypeError(t)

    return [[node(t) for t in trees] for trees in blocks]


def spec_compile(program, fold_enabled=True):
    keys, uses, blocks = resolve(program)
    fold(keys, uses, blocks, fold_enabled)
    return embed(blocks)


# ---------------------------------------------------------------- expansion (C05)

def expand(t):
    """Follow references, erase sub recipe wrappers and reference amounts: pure step/ingredient trees."""
    import recipe_grid.recipe as R
    if isinstance(t, R.Ingredient):
        return ("I", repr(t.description._string), repr(t.quantity))
    if isinstance(t, R.Step):
        return ("S", repr(t.description._string), tuple(expand(i) for i in t.inputs))
    if isinstance(t, R.Reference):
        return expand(t.sub_recipe.sub_tree)
    if isinstance(t, R.SubRecipe):
        return expand(t.sub_tree)
    raise TypeError(t)


def count_outside_refs(t):
    import recipe_grid.recipe as R
    if isinstance(t, R.Ingredient):
        return (1, 0)
    if isinstance(t, R.Step):
        a = [count_outside_refs(i) for i in t.inputs]
        return (sum(x for x, _ in a), 1 + sum(y for _, y in a))
    if isinstance(t, R.Reference):
        return (0, 0)
    return count_outside_refs(t.sub_tree)
