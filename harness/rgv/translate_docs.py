"""Translator: facts stated by the documentation of recipe_grid (coq/Gen/GenDocs.v).

serving_phrases: the bullet list of title forms in docs/source/markdown_reference.rst
("When this heading ends with one of the following forms ..."), each `` words <N> `` item as
(optional first word, last word).  Fails closed when the list cannot be found or an item has another shape."""
from __future__ import annotations

import os
import re
from typing import List, Tuple

from . import coqio, repo_root
from .translate import gen, HEADER


def serving_phrases() -> List[List[str]]:
    path = os.path.join(repo_root(), "docs", "source", "markdown_reference.rst")
    lines = open(path, encoding="utf-8").read().splitlines()
    starts = [i for i, l in enumerate(lines) if "ends with one of the following forms" in l]
    if len(starts) != 1:
        raise ValueError("cannot find the list of documented title forms in markdown_reference.rst")
    i = starts[0] + 1
    while i < len(lines) and not lines[i].startswith("* "):
        if lines[i].strip() and not lines[i - 1].strip():
            raise ValueError("unexpected paragraph before the list of title forms")
        i += 1
    phrases: List[List[str]] = []
    while i < len(lines) and lines[i].startswith("* "):
        m = re.fullmatch(r"\* ``([a-z]+(?: [a-z]+)*) <N>``", lines[i].rstrip())
        if not m:
            raise ValueError(f"documented title form has an unexpected shape: {lines[i]!r}")
        phrases.append(m.group(1).split(" "))
        i += 1
    if i < len(lines) and lines[i].strip():
        raise ValueError("list of title forms is not followed by a blank line")
    if not phrases:
        raise ValueError("empty list of documented title forms")
    return phrases


def _word(w: str) -> str:
    return coqio.string(w)


@gen("GenDocs")
def gen_docs() -> str:
    out = [HEADER, ""]
    out.append("(* docs/source/markdown_reference.rst, section Titles: ``<words> <N>`` forms, as (first word, last word) *)")
    items = []
    for ph in serving_phrases():
        if len(ph) == 1:
            items.append(f"((@None str), {_word(ph[0])})")
        elif len(ph) == 2:
            items.append(f"(Some {_word(ph[0])}, {_word(ph[1])})")
        else:
            raise ValueError(f"documented title form with more than two words: {ph}")
    out.append("Definition serving_phrases : list (option str * str) :=\n  " + coqio.lst(items, "(option str * str)") + ".")
    return "\n".join(out) + "\n"
