"""Translator for C06/C07: the compiled peggie grammar of recipe_grid -> coq/Gen/GenGrammar.v.

Prints ``recipe_grid.parser.grammar.grammar`` (the LIVE object: grammar.peg after the @KNOWN_UNITS@
substitution, compiled by peggie) as a term of Model/Peg.v: every rule in dictionary order, every regex
leaf with its pattern text and the flags of the compiled pattern object.  Also prints the constants of the
parse-tree transformer that the hand-written interpreter copies (ESCAPE_CHARS) and the interpreter limits
it depends on (sys.get_int_max_str_digits).  Anything of an unexpected shape raises (fail closed).
"""
from __future__ import annotations

import importlib
import sys
from typing import Any

from . import coqio as c
from .translate import gen, HEADER


def _expr(e: Any) -> str:
    n = type(e).__name__
    ind = getattr(e, "indentation", None)
    if ind is None or getattr(ind, "name", None) != "any":
        raise ValueError(f"expression {n} carries an indentation requirement ({ind!r}); the model has none")
    if n == "AltExpr":
        return "(PAlt " + c.lst([_expr(x) for x in e.exprs], "peg") + ")"
    if n == "ConcatExpr":
        return "(PConcat " + c.lst([_expr(x) for x in e.exprs], "peg") + ")"
    if n == "StarExpr":
        return f"(PStar {_expr(e.expr)})"
    if n == "PlusExpr":
        return f"(PPlus {_expr(e.expr)})"
    if n == "MaybeExpr":
        return f"(PMaybe {_expr(e.expr)})"
    if n == "LookaheadExpr":
        return f"(PNot {_expr(e.expr)})"
    if n == "PositiveLookaheadExpr":
        return f"(PAnd {_expr(e.expr)})"
    if n == "RuleExpr":
        if not isinstance(e.name, str):
            raise ValueError("rule name is not a str")
        return f"(PRule {c.string(e.name)})"
    if n == "RegexExpr":
        pat = e.pattern
        if not isinstance(pat.pattern, str):
            raise ValueError("bytes pattern")
        return f"(PRegex {c.string(pat.pattern)} {c.n_(int(pat.flags))})"
    if n == "EmptyExpr":
        return "PEmpty"
    raise ValueError(f"unknown peggie expression {n}")


@gen("GenGrammar")
def gen_grammar() -> str:
    G = importlib.import_module("recipe_grid.parser.grammar")
    A = importlib.import_module("recipe_grid.parser.ast")
    peggie = importlib.import_module("peggie")
    g = G.grammar
    if type(g).__name__ != "Grammar" or not isinstance(g.rules, dict) or not isinstance(g.start_rule, str):
        raise ValueError("recipe_grid.parser.grammar.grammar is not a peggie Grammar")
    wf = g.is_well_formed()
    if not wf:
        raise ValueError(f"grammar is not well formed: {wf!r}")
    out = [HEADER, "From RG Require Import Model.Peg."]
    rows = []
    for name, e in g.rules.items():
        rows.append("(" + c.string(name) + ",\n    " + _expr(e) + ")")
    out.append("Definition rules : grammar := mkGrammar " + c.string(g.start_rule) + "\n  ["
               + ";\n   ".join(rows) + "].")
    # the escape table of the transformer
    esc = A.ESCAPE_CHARS
    if not all(isinstance(k, str) and isinstance(v, str) and len(k) == 1 and len(v) == 1 for k, v in esc.items()):
        raise ValueError("ESCAPE_CHARS is not a char -> char mapping")
    out.append("Definition escape_chars : list (N * N) := "
               + c.lst([c.pair(f"{ord(k)}%N", f"{ord(v)}%N") for k, v in esc.items()], "(N * N)") + ".")
    # which transformer methods exist (the interpreter implements exactly these)
    T = A.RecipeTransformer
    methods = sorted(k for k in vars(T) if not k.startswith("_"))
    out.append("Definition transformer_methods : list str := " + c.lst([c.string(m) for m in methods], "str") + ".")
    out.append(f"Definition int_max_str_digits : N := {c.n_(sys.get_int_max_str_digits())}.")
    out.append(f"Definition peggie_version : str := {c.string(str(getattr(peggie, '__version__', '?')))}.")
    return "\n".join(out) + "\n"
