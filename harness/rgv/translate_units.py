"""Translator for C12: recipe_grid.units.UNIT_SYSTEM, the unit regex and the regex
engine's character classes -> coq/Gen/GenUnits.v.

Everything is read from the LIVE objects of the checkout under test:

* ``UNIT_SYSTEM.unit_sets`` (kind -> RelatedUnitSet.units: name tuples and Definitions),
* ``ALL_UNITS_REGEX_LITERAL`` and the compiled pattern of the grammar rule ``known_unit``
  (``recipe_grid.parser.grammar.grammar``), ``preposition`` and ``hsp``,
* the character classes the ``re`` module uses for ``(?i)`` literals, ``\\s`` and ``\\w`` (computed by running
  the engine over all code points), and ``str.lower`` as a table.

Anything of an unexpected shape raises (fail closed).
"""
from __future__ import annotations

import re
import sys
from fractions import Fraction
from typing import Any, List, Tuple

from . import coqio as c
from .translate import gen, HEADER

_ALL = "".join(chr(i) for i in range(sys.maxunicode + 1))
_META = set(".^$*+?{}[]()|\\")


def parse_alternatives(lit: str) -> List[List[Any]]:
    """ALL_UNITS_REGEX_LITERAL -> list of alternatives, each a list of pieces: a str of length 1 (literal
    character) or the token "WS" (``\\s+``).  Only that sub-language is accepted."""
    alts: List[List[Any]] = [[]]
    i = 0
    while i < len(lit):
        ch = lit[i]
        if ch == "|":
            alts.append([])
            i += 1
        elif lit.startswith("\\s+", i):
            alts[-1].append("WS")
            i += 3
        elif ch == "\\":
            if i + 1 >= len(lit):
                raise ValueError("dangling backslash in unit regex")
            nxt = lit[i + 1]
            if nxt.isalnum():
                raise ValueError(f"regex escape \\{nxt} not understood in unit regex")
            alts[-1].append(nxt)
            i += 2
        elif ch in _META:
            raise ValueError(f"regex metacharacter {ch!r} not understood in unit regex")
        else:
            alts[-1].append(ch)
            i += 1
    if any(not a for a in alts):
        raise ValueError("empty alternative in unit regex")
    return alts


def ci_class(ch: str) -> List[int]:
    return [ord(x) for x in re.compile(re.escape(ch), re.I | re.S).findall(_ALL)]


def ranges(codes: List[int]) -> List[Tuple[int, int]]:
    out: List[List[int]] = []
    for k in codes:
        if out and out[-1][1] == k - 1:
            out[-1][1] = k
        else:
            out.append([k, k])
    return [(a, b) for a, b in out]


def piece(p: Any) -> str:
    return "PWs" if p == "WS" else f"(PLit {ord(p)}%N)"


@gen("GenUnits")
def gen_units() -> str:
    import importlib
    units = importlib.import_module("recipe_grid.units")
    grammar = importlib.import_module("recipe_grid.parser.grammar").grammar
    US = units.UNIT_SYSTEM

    out = [HEADER]
    out.append("Inductive piece := PLit (c : N) | PWs.   (* literal character | the token \\s+ *)")
    out.append("Record unit_def := mkUnit { u_names : list str; u_def : option (num * str) }.")

    # ---- the table
    kinds = []
    letters = set("abcdefghijklmnopqrstuvwxyz")
    if not isinstance(US.unit_sets, dict):
        raise ValueError("UNIT_SYSTEM.unit_sets is not a dict")
    for kind, uset in US.unit_sets.items():
        if not isinstance(kind, str) or type(uset).__name__ != "RelatedUnitSet":
            raise ValueError(f"unexpected unit set {kind!r}")
        us = []
        for u in uset.units:
            if type(u).__name__ != "Unit" or not isinstance(u.names, tuple) or not all(isinstance(n, str) for n in u.names):
                raise ValueError(f"unexpected unit {u!r}")
            for n in u.names:
                letters.update(n)
            if u.definition is None:
                d = None
            else:
                q, parent = u.definition
                if isinstance(q, bool) or not isinstance(q, (int, Fraction, float)) or not isinstance(parent, str):
                    raise ValueError(f"unexpected definition {u.definition!r}")
                d = c.pair(c.num(q), c.string(parent))
            us.append(f"mkUnit {c.lst([c.string(n) for n in u.names], 'str')} {c.opt(d, '(num * str)')}")
        kinds.append(c.pair(c.string(kind), c.lst(us, "unit_def")))
    out.append("Definition unit_system : list (str * list unit_def) :=\n  " + c.lst(kinds, "(str * list unit_def)").replace("); (", ");\n   (") + ".")

    # names in the order UnitSystem.iter_names yields them (the order of the regex alternation)
    names = list(US.iter_names())
    out.append("Definition impl_iter_names : list str := " + c.lst([c.string(n) for n in names], "str") + ".")

    # ---- the regex
    lit = units.ALL_UNITS_REGEX_LITERAL
    if not isinstance(lit, str):
        raise ValueError("ALL_UNITS_REGEX_LITERAL is not a str")
    alts = parse_alternatives(lit)
    for a in alts:
        for p in a:
            if p != "WS":
                letters.add(p)
    out.append("Definition unit_regex_alts : list (list piece) :=\n  "
               + c.lst([c.lst([piece(p) for p in a], "piece") for a in alts], "(list piece)") + ".")
    ku = grammar.rules["known_unit"]
    if type(ku).__name__ != "RegexExpr":
        raise ValueError("grammar rule known_unit is not a single regex")
    pat, flags = ku.pattern.pattern, ku.pattern.flags
    ci = bool(flags & re.I)
    body = pat
    if body.startswith("(?i)"):
        body = body[4:]
    boundary = body.endswith("\\b")
    if boundary:
        body = body[:-2]
    if not (body.startswith("(") and body.endswith(")") and body[1:-1] == lit):
        raise ValueError("grammar rule known_unit is not (?i)(<ALL_UNITS_REGEX_LITERAL>)\\b : " + pat[:80])
    if flags & ~(re.I | re.S | re.U):
        raise ValueError("unexpected regex flags on known_unit")
    out.append(f"Definition known_unit_ci : bool := {c.boolean(ci)}.")
    out.append(f"Definition known_unit_boundary : bool := {c.boolean(boundary)}.")
    for rule in ("preposition", "hsp"):
        r = grammar.rules[rule]
        if type(r).__name__ != "RegexExpr" or (r.pattern.flags & ~(re.I | re.S | re.U)):
            raise ValueError(f"grammar rule {rule} is not a single plain regex")
        out.append(f"Definition {rule}_pattern : str := {c.string(r.pattern.pattern)}.")
    iq = repr(grammar.rules["implicit_quantity"])
    iq = re.sub(r", indentation=<[^>]*>", "", iq)
    out.append(f"Definition implicit_quantity_rule : str := {c.string(iq)}.")

    # ---- the engine's character classes
    rows = []
    for ch in sorted(letters):
        rows.append(c.pair(f"{ord(ch)}%N", c.lst([f"{k}%N" for k in ci_class(ch)], "N")))
    out.append("(* for each literal character: the code points it matches under re.IGNORECASE *)")
    out.append("Definition ci_table : list (N * list N) :=\n  " + c.lst(rows, "(N * list N)") + ".")
    ws = [ord(x) for x in re.compile(r"\s").findall(_ALL)]
    out.append("Definition ws_chars : list N := " + c.lst([f"{k}%N" for k in ws], "N") + ".   (* \\s *)")
    wd = ranges([ord(x) for x in re.compile(r"\w").findall(_ALL)])
    out.append("Definition word_ranges : list (N * N) :=   (* \\w, inclusive ranges, ascending *)\n  "
               + c.lst([c.pair(f"{a}%N", f"{b}%N") for a, b in wd], "(N * N)") + ".")
    # str.lower as a table (code points whose lower-casing is not themselves); U+03A3 is context dependent
    low = []
    for i in range(sys.maxunicode + 1):
        if 0xD800 <= i <= 0xDFFF:
            continue
        l = chr(i).lower()
        if l != chr(i):
            low.append(c.pair(f"{i}%N", c.string(l)))
    if ("aΣ".lower(), "Σ".lower()) != ("aς", "σ"):
        raise ValueError("unexpected final-sigma behaviour of str.lower")
    out.append("Definition lower_table : list (N * str) :=\n  " + c.lst(low, "(N * str)") + ".")
    # math.isclose defaults (Quantity.has_equal_value_to calls it with the defaults)
    import inspect
    import math
    sig = inspect.signature(math.isclose).parameters
    rt, at = sig["rel_tol"].default, sig["abs_tol"].default
    if not isinstance(rt, float) or at != 0.0:
        raise ValueError("unexpected defaults of math.isclose")
    n, d = rt.as_integer_ratio()
    out.append(f"Definition isclose_rel_tol : Z * positive := ({c.z(n)}, {c.pos(d)}).   (* {rt!r} exactly *)")
    return "\n".join(out) + "\n"
