"""Translator: regular expressions of recipe_grid as Gallina terms (coq/Gen/GenRegex.v).

The parse tree that CPython's own `re._parser.parse` builds for the LIVE pattern object
(pattern text + flags read off the compiled object) is printed as a term of Model/RegexAst.v.
Anything the printer does not know raises (fail closed)."""
from __future__ import annotations

import re
import re._constants as C          # CPython >= 3.11
import re._parser as P
from typing import Any, List

from . import coqio
from .translate import gen, HEADER

_CATS = {C.CATEGORY_SPACE: "CatSpace", C.CATEGORY_NOT_SPACE: "CatNotSpace", C.CATEGORY_DIGIT: "CatDigit",
         C.CATEGORY_NOT_DIGIT: "CatNotDigit", C.CATEGORY_WORD: "CatWord", C.CATEGORY_NOT_WORD: "CatNotWord"}


def coq_string(x: str) -> str:
    if not all(32 <= ord(c) < 127 and c != '"' for c in x):
        raise ValueError(f"cannot print {x!r} as a Coq string")
    return '"' + x + '"%string'


def _cset(item: Any) -> str:
    op, av = item
    if op is C.CATEGORY:
        if av not in _CATS:
            raise ValueError(f"unknown category {av}")
        return _CATS[av]
    if op is C.RANGE:
        return f"(CRange {coqio.n_(av[0])} {coqio.n_(av[1])})"
    if op is C.LITERAL:
        return f"(CChar {coqio.n_(av)})"
    if op is C.NEGATE:
        return "CNegate"
    raise ValueError(f"unknown set item {op}")


def _seq(items: Any) -> str:
    return coqio.lst([_node(x) for x in items], "re")


def _node(node: Any) -> str:
    op, av = node
    if op is C.LITERAL:
        return f"(Lit {coqio.n_(av)})"
    if op is C.NOT_LITERAL:
        return f"(NotLit {coqio.n_(av)})"
    if op is C.ANY:
        return "AnyChar"
    if op is C.IN:
        return "(InSet " + coqio.lst([_cset(x) for x in av], "cset") + ")"
    if op in (C.MAX_REPEAT, C.MIN_REPEAT):
        lo, hi, body = av
        hi_t = "(@None N)" if hi is C.MAXREPEAT else f"(Some {coqio.n_(hi)})"
        return f"(Repeat {coqio.boolean(op is C.MAX_REPEAT)} {coqio.n_(lo)} {hi_t} {_seq(body)})"
    if op is C.SUBPATTERN:
        group, add_flags, del_flags, body = av
        if add_flags or del_flags:
            raise ValueError("inline flag groups are not supported")
        g = "(@None N)" if group is None else f"(Some {coqio.n_(group)})"
        return f"(Group {g} {_seq(body)})"
    if op is C.BRANCH:
        _none, alts = av
        return "(Branch " + coqio.lst([_seq(a) for a in alts], "(list re)") + ")"
    if op is C.AT:
        return f"(At {coq_string(str(av))})"
    raise ValueError(f"unsupported regex node {op}")


def regex_term(pat: "re.Pattern[str]") -> str:
    if not isinstance(pat.pattern, str):
        raise ValueError("bytes patterns are not supported")
    tree = P.parse(pat.pattern, pat.flags)
    known = re.IGNORECASE | re.UNICODE | re.MULTILINE | re.DOTALL | re.VERBOSE | re.ASCII
    if pat.flags & ~known:
        raise ValueError(f"unknown flags {pat.flags}")
    flags = sorted(f.name for f in (re.IGNORECASE, re.UNICODE, re.MULTILINE, re.DOTALL, re.VERBOSE, re.ASCII)
                   if pat.flags & f)
    groups = sorted(pat.groupindex.items(), key=lambda kv: kv[1])
    return ("{| rx_flags := " + coqio.lst([coq_string(f) for f in flags], "string")
            + ";\n   rx_tree := " + _seq(tree.data)
            + ";\n   rx_groups := " + coqio.lst([f"({coq_string(k)}, {coqio.n_(v)})" for k, v in groups], "(string * N)")
            + " |}")


@gen("GenRegex")
def gen_regex() -> str:
    import importlib
    md = importlib.import_module("recipe_grid.markdown")
    pat = md.RecipeGridRendererMixin.title_serving_count_pattern
    if not isinstance(pat, re.Pattern):
        raise ValueError("title_serving_count_pattern is not a compiled pattern")
    out = [HEADER, "From RG Require Import Model.RegexAst.", ""]
    out.append("(* recipe_grid.markdown.RecipeGridRendererMixin.title_serving_count_pattern *)")
    out.append("Definition title_pattern : regex :=\n  " + regex_term(pat) + ".")
    return "\n".join(out) + "\n"
