"""Shared by C01 / C05 (and reusable elsewhere): run recipe_grid.compiler.compile on a
generated program, canonicalise the observation, run the oracles."""
from __future__ import annotations

import random
from typing import Any, Dict, List, Optional, Tuple

from . import coqio as c
from . import ser
from .api import Case, Suite
from .gen import programs as P
from .oracles import spec_compile as S


def line_col_to_off(text: str, line: int, col: int) -> Optional[int]:
    lines = text.splitlines(keepends=True)
    if line < 1 or line > max(1, len(lines)):
        return None
    return sum(len(l) for l in lines[: line - 1]) + col - 1


def observe(texts: List[str]) -> Tuple[str, Any, Any]:
    """-> (coq term of type observed, json, python result or exception)"""
    from recipe_grid.compiler import compile, NameRedefinedError, ProportionGivenForIngredientError
    from peggie.error_message_generation import extract_line
    try:
        rs = compile(list(texts))
    except (NameRedefinedError, ProportionGivenForIngredientError) as e:
        kind = "NameRedefined" if isinstance(e, NameRedefinedError) else "ProportionGiven"
        cands = []
        for b, t in enumerate(texts):
            off = line_col_to_off(t, e.line, e.column)
            if off is None:
                continue
            try:
                if extract_line(t, e.line) != e.snippet:
                    continue
            except IndexError:
                continue
            cands.append((b, off))
        coq = f"(ObsErr {kind} {c.lst([c.pair(c.nat(b), c.n_(o)) for b, o in cands], '(nat * N)')})"
        return coq, {"error": kind, "line": e.line, "column": e.column, "snippet": e.snippet, "cands": cands}, e
    except Exception as e:  # any other exception is itself a violation of C07 and a disagreement here
        return "ObsOther", {"exception": type(e).__name__, "msg": str(e)[:200]}, e
    return f"(ObsOk {ser.blocks(rs)})", {"ok": [[ser.node_json(t) for t in r.recipe_trees] for r in rs]}, rs


def typed_equal(a: Any, b: Any) -> bool:
    return ser.node_json(a) == ser.node_json(b)


def oracle_c01(prog: Any, texts: List[str], result: Any) -> Optional[str]:
    """Compare what compile returned with the pointer-based reading of the language reference."""
    from recipe_grid.compiler import NameRedefinedError, ProportionGivenForIngredientError, RecipeCompileError
    try:
        spec = S.spec_compile(prog)
        spec_err = None
    except S.SpecError as e:
        spec, spec_err = None, e
    if isinstance(result, Exception):
        if not isinstance(result, RecipeCompileError):
            return f"compile raised {type(result).__name__}: {result}"
        kind = "NameRedefined" if isinstance(result, NameRedefinedError) else "ProportionGiven"
        if spec_err is None:
            return f"compile rejected an acceptable description with {kind}"
        if spec_err.kind != kind:
            return f"compile raised {kind}, the reference prescribes {spec_err.kind}"
        off = line_col_to_off(texts[spec_err.block], result.line, result.column)
        if off != spec_err.off:
            return f"{kind} reported at line {result.line} column {result.column}, offending token is at offset {spec_err.off} of block {spec_err.block}"
        return None
    if spec_err is not None:
        return f"compile accepted a description that must be rejected with {spec_err.kind}"
    got = [list(r.recipe_trees) for r in result]
    if len(got) != len(spec):
        return "wrong number of blocks"
    for b, (g, s) in enumerate(zip(got, spec)):
        if len(g) != len(s):
            return f"block {b}: {len(g)} trees, the reference prescribes {len(s)}"
        for i, (x, y) in enumerate(zip(g, s)):
            if not (x == y and typed_equal(x, y)):
                return f"block {b} tree {i} differs from what the reference prescribes"
    return None


def oracle_c05(prog: Any, texts: List[str], result: Any) -> Optional[str]:
    """Nothing lost, duplicated or reordered (needs no knowledge of when folding happens)."""
    if isinstance(result, Exception):
        return None
    try:
        unfolded = S.spec_compile(prog, fold_enabled=False)
    except S.SpecError:
        return None
    got = [list(r.recipe_trees) for r in result]
    if len(got) != len(unfolded):
        return "wrong number of blocks"
    ci = cs = ui = us = 0
    for b, (g, u) in enumerate(zip(got, unfolded)):
        ge = [S.expand(t) for t in g]
        ue = [S.expand(t) for t in u]
        # survivors appear in written order: ge must be a subsequence of ue
        it = iter(ue)
        if not all(any(x == y for y in it) for x in ge):
            return f"block {b}: remaining trees are not the written trees in written order (after following references)"
        for t in g:
            a, s_ = S.count_outside_refs(t)
            ci, cs = ci + a, cs + s_
        for t in u:
            a, s_ = S.count_outside_refs(t)
            ui, us = ui + a, us + s_
    if (ci, cs) != (ui, us):
        return f"{ci} ingredients / {cs} steps outside references after compilation, {ui} / {us} written"
    # every written tree is still present: as a survivor, or inside a survivor of the same or a later tree
    all_exp = []

    def subtrees(e):
        yield e
        if e[0] == "S":
            for x in e[2]:
                yield from subtrees(x)
    for g in got:
        for t in g:
            all_exp.extend(subtrees(S.expand(t)))
    allset = set(all_exp)
    for u in unfolded:
        for t in u:
            if S.expand(t) not in allset:
                return "a written tree no longer occurs anywhere in the compiled recipe"
    return None


def make_case(prog: Any, texts: List[str], which: str) -> Case:
    coq_out, js, result = observe(texts)
    viol = oracle_c01(prog, texts, result) if which == "C01" else oracle_c05(prog, texts, result)
    tags = []
    if isinstance(result, Exception):
        tags.append(type(result).__name__)
    else:
        tags.append("accepted")
        nst = sum(len(b) for b in prog)
        ntr = sum(len(r.recipe_trees) for r in result)
        if ntr < nst:
            tags.append(f"folded")
        if len(prog) > 1:
            tags.append("multiblock")
        if "Reference" in coq_out:
            tags.append("has-reference")
    return Case(
        input={"program": prog, "sources": texts}, coq_in=P.coq_program(prog), coq_out=coq_out, impl=js,
        violation=viol, nontrivial=("accepted" in tags and ("folded" in tags or "has-reference" in tags)) or bool(isinstance(result, Exception)),
        tags=tags,
    )


def _one(args: Tuple[str, int, int]) -> Case:
    which, seed, i = args
    rng = random.Random((seed * 1000003 + i) * 2 + 1)
    kw: Dict[str, Any] = {}
    r = i % 10
    if r == 0:
        kw = dict(max_blocks=1, max_stmts=3, max_depth=2)      # small scope
    elif r == 1:
        kw = dict(max_blocks=3, max_stmts=10, max_depth=3)
    elif r == 2:
        kw = dict(max_blocks=2, max_stmts=4, max_depth=7)       # deep
    if i % 30 == 3:
        prog = P.gen_positional_fold_program(rng)   # folds at varying statement positions across blocks (seed C05-m26)
    else:
        prog = P.gen_program(rng, **kw)
    texts = P.spell(prog, rng)
    return make_case(prog, texts, which)


def pmap(f, items, jobs: int = 14):
    """Parallel map (the real parser is slow: ~50 ms per block)."""
    import multiprocessing as mp
    if len(items) < 32:
        return [f(x) for x in items]
    with mp.get_context("fork").Pool(jobs) as pool:
        return pool.map(f, items, chunksize=max(1, len(items) // (jobs * 8)))


def gen_cases(which: str, tier: str, seed: int) -> List[Case]:
    n = {"quick": 1500, "thorough": 30000}.get(tier, 0)
    return pmap(_one, [(which, seed, i) for i in range(n)])


def sym_suite(cases: List[Case]) -> Suite:
    """The same cases against the SPECIFICATION sym_compile (Spec/CompileSym.v): validates the spec itself
    against the implementation on every run."""
    return Suite(
        name="compile-sym",
        imports=["From RG Require Import Model.Recipe Model.Compiler Model.CompilerInst Model.CompilerSymInst."],
        in_ty="list (list astmt)", out_ty="observed", check="check_sym", show="sym_compile_inst", shard=60,
        cases=list(cases),
    )


def compile_suite(which: str, tier: str, seed: int) -> Suite:
    su = Suite(
        name="compile",
        imports=["From RG Require Import Model.Recipe Model.Compiler Model.CompilerInst."],
        in_ty="list (list astmt)", out_ty="observed", check="check_compile", show="compile_ast_inst", shard=60,
    )
    if tier != "replay":
        su.cases = gen_cases(which, tier, seed)
    return su
