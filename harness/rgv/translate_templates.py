"""Translator for C10: every ``{{ ... }}`` interpolation of the static-site Jinja templates with its filter chain
and the HTML context it is written into -> coq/Gen/GenTemplates.v.

The templates are tokenised with Jinja's own lexer (``env.lex``) using the environment of the checkout
(``recipe_grid.static_site.templates.env``), so block / variable / comment delimiters are exactly Jinja's.  The HTML
context is tracked by a small scanner over the ``data`` tokens in file order: text, inside a tag, inside a double- /
single-quoted / unquoted attribute value, inside a comment, inside a raw-text element (script / style).
Anything not understood raises (fail closed).
"""
from __future__ import annotations

import os
import re
from typing import List, Tuple

from . import coqio as c
from . import repo_root
from .translate import gen, HEADER


class Ctx:
    """HTML context scanner over template data (file order)."""

    def __init__(self) -> None:
        self.state = "text"      # text | tag | attr_dq | attr_sq | attr_unq | comment | raw
        self.raw_end = ""
        self.tagbuf = ""

    def feed(self, data: str) -> None:
        i = 0
        n = len(data)
        while i < n:
            ch = data[i]
            st = self.state
            if st == "text":
                if data.startswith("<!--", i):
                    self.state = "comment"
                    i += 4
                    continue
                if ch == "<" and i + 1 < n and (data[i + 1].isalpha() or data[i + 1] in "/!?"):
                    self.state = "tag"
                    self.tagbuf = ""
                elif ch == "<" and i + 1 >= n:
                    raise ValueError("template data ends with '<'")
            elif st == "comment":
                if data.startswith("-->", i):
                    self.state = "text"
                    i += 3
                    continue
            elif st == "raw":
                if data[i:i + len(self.raw_end)].lower() == self.raw_end:
                    self.state = "tag"
                    self.tagbuf = ""
            elif st == "tag":
                if ch == ">":
                    m = re.match(r"\s*([A-Za-z][A-Za-z0-9-]*)", self.tagbuf)
                    name = m.group(1).lower() if m else ""
                    if name in ("script", "style") and not self.tagbuf.lstrip().startswith("/"):
                        self.state = "raw"
                        self.raw_end = "</" + name
                    else:
                        self.state = "text"
                elif ch == '"' and self.tagbuf.rstrip().endswith("="):
                    self.state = "attr_dq"
                elif ch == "'" and self.tagbuf.rstrip().endswith("="):
                    self.state = "attr_sq"
                elif self.tagbuf.endswith("=") and not ch.isspace():
                    self.state = "attr_unq"
                    self.tagbuf += ch
                else:
                    self.tagbuf += ch
            elif st == "attr_dq":
                if ch == '"':
                    self.state = "tag"
                    self.tagbuf += '""'
            elif st == "attr_sq":
                if ch == "'":
                    self.state = "tag"
                    self.tagbuf += "''"
            elif st == "attr_unq":
                if ch.isspace():
                    self.state = "tag"
                    self.tagbuf += ch
                elif ch == ">":
                    self.state = "text"
            i += 1

    def interpolate(self) -> None:
        """An interpolation happens here: what does it do to the context?"""
        if self.state == "tag":
            if self.tagbuf.endswith("="):
                self.state = "attr_unq"
            self.tagbuf += "x"


CTX = {"text": "CtxText", "attr_dq": "CtxAttrDq"}


def scan_template(env, name: str, src: str) -> List[Tuple[int, str, List[str], str]]:
    sinks = []
    ctx = Ctx()
    toks = list(env.lex(src, filename=name))
    i = 0
    while i < len(toks):
        line, kind, val = toks[i]
        if kind == "data":
            ctx.feed(val)
        elif kind == "variable_begin":
            j = i + 1
            expr = []
            while toks[j][1] != "variable_end":
                expr.append(toks[j])
                j += 1
            text = "".join(v for _, k, v in expr).strip()
            filters = []
            for k in range(len(expr)):
                if expr[k][1] == "operator" and expr[k][2] == "|":
                    m = k + 1
                    while expr[m][1] == "whitespace":
                        m += 1
                    if expr[m][1] != "name":
                        raise ValueError(f"{name}:{line}: filter is not a name")
                    filters.append(expr[m][2])
            sinks.append((line, text, filters, ctx.state))
            ctx.interpolate()
            i = j
        elif kind in ("raw_begin", "raw_end"):
            raise ValueError(f"{name}:{line}: raw blocks are not understood")
        i += 1
    return sinks


@gen("GenTemplates")
def gen_templates() -> str:
    import importlib
    T = importlib.import_module("recipe_grid.static_site.templates")
    env = T.env
    tdir = os.path.join(repo_root(), "recipe_grid", "static_site", "templates")
    rows = []
    for fn in sorted(os.listdir(tdir)):
        if fn.startswith("__") or fn.startswith("."):
            continue
        path = os.path.join(tdir, fn)
        if not os.path.isfile(path):
            continue
        src = open(path, encoding="utf-8").read()
        auto = env.autoescape(fn) if callable(env.autoescape) else bool(env.autoescape)
        for line, text, filters, state in scan_template(env, fn, src):
            rows.append("mkSink " + " ".join([
                c.string(fn), c.n_(line), c.string(text), c.lst([c.string(f) for f in filters], "str"),
                CTX.get(state, "CtxOther"), c.boolean(bool(auto))]))
    if not rows:
        raise ValueError("no interpolations found in the templates: translator out of date")
    # what autoescape applies: markupsafe.escape
    import markupsafe
    probe = str(markupsafe.escape("&<>\"'a"))
    out = [HEADER]
    out.append("Inductive sink_ctx := CtxText | CtxAttrDq | CtxOther.")
    out.append("Record sink := mkSink { sk_file : str; sk_line : N; sk_expr : str; sk_filters : list str; "
               "sk_ctx : sink_ctx; sk_autoescape : bool }.")
    out.append("Definition template_sinks : list sink :=\n  " + c.lst(rows, "sink").replace("; mkSink", ";\n   mkSink") + ".")
    out.append(f"Definition markupsafe_probe : str := {c.string(probe)}.   (* markupsafe.escape of: ampersand, less, greater, double quote, apostrophe, a *)")
    return "\n".join(out) + "\n"
