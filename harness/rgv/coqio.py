"""Python values -> Gallina terms, and running generated case files through coqc.

All terms are emitted fully parenthesised and scope-annotated so that they
parse in any scope.
"""
from __future__ import annotations

import math
import os
import re
import subprocess
import time
from fractions import Fraction
from typing import Any, Iterable, List, Optional, Sequence, Tuple

VERIF = os.path.dirname(os.path.dirname(os.path.dirname(os.path.abspath(__file__))))
COQ_DIR = os.path.join(VERIF, "coq")
CORR_DIR = os.path.join(COQ_DIR, "Corr")


# --------------------------------------------------------------------------
# Primitive encoders
# --------------------------------------------------------------------------

def z(n: int) -> str:
    return f"({n})%Z"


def n_(n: int) -> str:
    assert n >= 0
    return f"{n}%N"


def nat(n: int) -> str:
    assert 0 <= n < 5000, "nat literals must stay small"
    return f"{n}%nat"


def pos(n: int) -> str:
    assert n >= 1
    return f"{n}%positive"


def boolean(b: bool) -> str:
    return "true" if b else "false"


def string(x: str) -> str:
    """A Python str as a Gallina [str] (list of code points)."""
    if not x:
        return "(@nil N)"
    return "[" + ";".join(str(ord(c)) for c in x) + "]%N"


def lst(items: Iterable[str], ty: Optional[str] = None) -> str:
    items = list(items)
    if not items:
        return f"(@nil {ty})" if ty else "[]"
    return "[" + "; ".join(items) + "]"


def opt(x: Optional[str], ty: Optional[str] = None) -> str:
    if x is None:
        return f"(@None {ty})" if ty else "None"
    return f"(Some {x})"


def pair(*xs: str) -> str:
    return "(" + ", ".join(xs) + ")"


def float_me(x: float) -> Tuple[int, int]:
    """Canonical (m, e) with x = m * 2**e, m odd or (0, 0)."""
    assert math.isfinite(x)
    if x == 0:
        return (0, 0)
    n, d = x.as_integer_ratio()
    e = 0
    if d > 1:
        e = -(d.bit_length() - 1)
    else:
        while n % 2 == 0:
            n //= 2
            e += 1
    return (n, e)


def num(x: Any) -> str:
    """int / Fraction / float -> [num]."""
    if isinstance(x, bool):
        raise TypeError("bool is not a recipe number")
    if isinstance(x, int):
        return f"(NInt {z(x)})"
    if isinstance(x, Fraction):
        return f"(NFrac {z(x.numerator)} {pos(x.denominator)})"
    if isinstance(x, float):
        m, e = float_me(x)
        return f"(NFloat {z(m)} {z(e)})"
    raise TypeError(type(x))


def num_json(x: Any) -> Any:
    if isinstance(x, int):
        return {"int": str(x)}
    if isinstance(x, Fraction):
        return {"frac": [str(x.numerator), str(x.denominator)]}
    if isinstance(x, float):
        return {"float": x.hex()}
    raise TypeError(type(x))


def num_unjson(j: Any) -> Any:
    if "int" in j:
        return int(j["int"])
    if "frac" in j:
        return Fraction(int(j["frac"][0]), int(j["frac"][1]))
    return float.fromhex(j["float"])


# --------------------------------------------------------------------------
# Running case files
# --------------------------------------------------------------------------

HEADER = """From Coq Require Import List ZArith NArith QArith Bool.
From RG Require Import Base.Str Base.Dec Base.Num.
Import ListNotations.
"""


def _coqc(path: str, timeout: int, _retry: bool = True) -> Tuple[int, str]:
    rc, out = _coqc_once(path, timeout)
    if _retry and (rc < 0 or rc == 137):
        # killed by a signal (the kernel's out-of-memory killer on an overloaded machine): not a verdict - once more
        time.sleep(15)
        rc, out = _coqc_once(path, timeout)
    return rc, out


def _coqc_once(path: str, timeout: int) -> Tuple[int, str]:
    try:
        p = subprocess.run(
            ["coqc", "-Q", ".", "RG", os.path.relpath(path, COQ_DIR)],
            cwd=COQ_DIR, capture_output=True, text=True, timeout=timeout,
        )
        return p.returncode, p.stdout + p.stderr
    except subprocess.TimeoutExpired:
        return 124, f"timeout after {timeout}s"


def write_shard(name: str, imports: Sequence[str], check: str, in_ty: str, out_ty: str,
                cases: Sequence[Tuple[str, str]]) -> str:
    os.makedirs(CORR_DIR, exist_ok=True)
    path = os.path.join(CORR_DIR, name + ".v")
    with open(path, "w") as f:
        f.write(HEADER)
        for imp in imports:
            f.write(imp.rstrip() + "\n")
        f.write(f"Definition cases : list (({in_ty}) * ({out_ty})) := [\n")
        f.write(";\n".join(f"  ({i}, {o})" for i, o in cases))
        f.write("\n].\n")
        f.write(f"Definition bad : list nat := failing ({check}) cases.\n")
        f.write("Definition report := (List.length cases, List.length bad, List.firstn 40 bad).\n")
        f.write("Eval vm_compute in report.\n")
    return path


_REPORT = re.compile(r"=\s*\(\s*(\d+)(?:%nat)?\s*,\s*(\d+)(?:%nat)?\s*,\s*(\[[^\]]*\]|nil)\s*\)", re.S)


def parse_report(out: str) -> Optional[Tuple[int, int, List[int]]]:
    m = _REPORT.search(out)
    if not m:
        return None
    idx = [int(x) for x in re.findall(r"\d+", m.group(3))]
    return int(m.group(1)), int(m.group(2)), idx


def run_shards(paths: Sequence[str], jobs: int = 16, timeout: int = 600):
    """Compile shards in parallel; returns list of (path, rc, output)."""
    from concurrent.futures import ThreadPoolExecutor

    with ThreadPoolExecutor(max_workers=jobs) as ex:
        res = list(ex.map(lambda p: (p,) + _coqc(p, timeout), paths))
    # A shard that was KILLED (signal: the kernel's out-of-memory killer on a busy machine), timed out or ran out of
    # memory says nothing about model and implementation: run it again, alone and with a longer limit, before it counts.
    out = []
    for p, rc, txt in res:
        if rc < 0 or rc == 124 or rc == 137 or "Out of memory" in txt or "Stack overflow" in txt:
            rc2, txt2 = _coqc(p, timeout * 3)
            if rc2 < 0 or rc2 in (124, 137):
                time.sleep(20)
                rc2, txt2 = _coqc(p, timeout * 3)
            rc, txt = rc2, txt2
        out.append((p, rc, txt))
    return out


def eval_terms(name: str, imports: Sequence[str], terms: Sequence[str], timeout: int = 300) -> Tuple[int, str]:
    """Evaluate arbitrary terms with vm_compute and return coqc's raw output
    (used by --replay to show what the model computes)."""
    os.makedirs(CORR_DIR, exist_ok=True)
    path = os.path.join(CORR_DIR, name + ".v")
    with open(path, "w") as f:
        f.write(HEADER)
        for imp in imports:
            f.write(imp.rstrip() + "\n")
        for t in terms:
            f.write(f"Eval vm_compute in ({t}).\n")
    return _coqc(path, timeout)


def clean_stale(max_age_s: int = 2 * 3600) -> None:
    """Remove case files left behind by runs that died long ago."""
    if os.path.isdir(CORR_DIR):
        now = time.time()
        for fn in os.listdir(CORR_DIR):
            fp = os.path.join(CORR_DIR, fn)
            try:
                if now - os.path.getmtime(fp) > max_age_s:
                    os.unlink(fp)
            except OSError:
                pass


def clean_corr(tag: str = "") -> None:
    """Remove the generated case files of one run (tag = its process id)."""
    if os.path.isdir(CORR_DIR):
        for fn in os.listdir(CORR_DIR):
            if tag and tag not in fn:
                continue
            try:
                os.unlink(os.path.join(CORR_DIR, fn))
            except OSError:
                pass
